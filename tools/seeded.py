#!/venv/bin/python
"""Run checks against the seeded changes kept under /verif/seeded/<id>/ (patch.diff, demo, meta.json).

For each seed: `git -C /repo apply patch.diff`, run the selected checks (default: the property named in
meta.json; --all: every claimed check), record exit codes / clauses, then `git -C /repo checkout -- .`.
Evidence and replay files of these runs go to /dev/shm (never into /verif/evidence).
usage: tools/seeded.py [--all] [--tier quick] [--tests] [seed-id ...]"""
import argparse, json, os, subprocess, sys, time, shutil
HERE = os.path.dirname(os.path.abspath(__file__))
VERIF = os.path.dirname(HERE)
ap = argparse.ArgumentParser()
ap.add_argument("ids", nargs="*")
ap.add_argument("--all", action="store_true")
ap.add_argument("--tier", default="quick")
ap.add_argument("--tests", action="store_true")
ap.add_argument("--checks", default="")
ap.add_argument("--scratch", action="store_true", help="apply the patch to a copy of /repo under /dev/shm (VERIF_REPO) instead of /repo itself")
ap.add_argument("--out", default="")
ap.add_argument("--keep", action="store_true", help="store the first counterexample of the seed's own check as seeded/<id>/counterexample.json")
a = ap.parse_args()
man = json.load(open(os.path.join(VERIF, "MANIFEST.json")))
claimed = [c["property_id"] for c in man["checks"]]
seeds = sorted(d for d in os.listdir(os.path.join(VERIF, "seeded")) if os.path.isfile(os.path.join(VERIF, "seeded", d, "patch.diff")))
if not a.scratch and subprocess.run(["git", "-C", "/repo", "status", "--porcelain"], capture_output=True, text=True).stdout.strip():
    sys.exit("/repo has uncommitted changes; refusing to apply seeds")
results = {}
for sid in seeds:
    if a.ids and sid not in a.ids:
        continue
    d = os.path.join(VERIF, "seeded", sid)
    meta = json.load(open(os.path.join(d, "meta.json")))
    scratch = None
    if a.scratch:
        scratch = f"/dev/shm/seedrepo-{os.getpid()}"
        shutil.rmtree(scratch, ignore_errors=True)
        shutil.copytree("/repo", scratch, ignore=shutil.ignore_patterns(".git", "build", "docs", "examples", "__pycache__", "*.egg-info"))
        r = subprocess.run(["patch", "-p1", "-s", "-d", scratch, "-i", os.path.join(d, "patch.diff")], capture_output=True, text=True)
    else:
        r = subprocess.run(["git", "-C", "/repo", "apply", os.path.join(d, "patch.diff")], capture_output=True, text=True)
    if r.returncode != 0:
        print(sid, "PATCH DOES NOT APPLY:", (r.stderr or r.stdout).strip()[:200])
        continue
    res = {}
    try:
        if a.tests and not a.scratch:
            t = subprocess.run("cd /repo && /venv/bin/python -m pytest -q -p no:cacheprovider -x --timeout=300", shell=True, capture_output=True, text=True)
            res["tests"] = "pass" if t.returncode == 0 else "FAIL"
        checks = [c for c in a.checks.split(",") if c] or (claimed if a.all else [meta.get("primary_check", meta["property"])])
        for c in checks:
            t0 = time.time()
            env = dict(os.environ, XMC_EVIDENCE_DIR=f"/dev/shm/seed-evidence-{os.getpid()}", XMC_REPLAY_DIR=f"/dev/shm/seed-replays-{os.getpid()}")
            if scratch:
                env["VERIF_REPO"] = scratch
            t = subprocess.run([os.path.join(VERIF, "check"), c, "--tier", a.tier], env=env, capture_output=True, text=True)
            clauses = sorted({ln.split()[0][7:] for ln in t.stdout.splitlines() if ln.startswith("  clause=")})
            if t.returncode == 1 and c == meta.get("primary_check", meta["property"]) and a.keep:
                # keep the first (shortest-path) counterexample as a replayable artefact next to the seed
                reps = [ln.split("replay=")[1].strip() for ln in t.stdout.splitlines() if ln.startswith("VIOLATION") and "replay=" in ln]
                if reps and os.path.exists(reps[0]):
                    shutil.copy(reps[0], os.path.join(d, "counterexample.json"))
            res[c] = {"exit": t.returncode, "wall": round(time.time() - t0, 1), "clauses": clauses[:8]}
            if t.returncode == 2:
                res[c]["err"] = (t.stderr or t.stdout)[-300:]
    finally:
        if scratch:
            shutil.rmtree(scratch, ignore_errors=True)
        else:
            subprocess.run(["git", "-C", "/repo", "checkout", "--", "."], check=True)
        shutil.rmtree(f"/dev/shm/seed-evidence-{os.getpid()}", ignore_errors=True)
        shutil.rmtree(f"/dev/shm/seed-replays-{os.getpid()}", ignore_errors=True)
    results[sid] = res
    caught = [c for c, v in res.items() if isinstance(v, dict) and v.get("exit") == 1]
    print(sid, f"(breaks {meta['property']})", "CAUGHT by " + ",".join(caught) if caught else "MISSED", json.dumps(res), flush=True)
    if a.out:
        json.dump(results, open(a.out, "w"), indent=1)
