#!/venv/bin/python
"""Runs every claimed check (quick tier) against each behaviour-preserving patch under /verif/benign/
(applied to a scratch copy of /repo, VERIF_REPO). Every check must stay silent: an exit code other than 0 is
a false alarm (or a harness error) of the machinery.   usage: tools/benign.py [--checks C01,C02] [patch-prefix ...]"""
import argparse, glob, json, os, shutil, subprocess, sys, time
HERE = os.path.dirname(os.path.abspath(__file__)); VERIF = os.path.dirname(HERE)
ap = argparse.ArgumentParser(); ap.add_argument("names", nargs="*"); ap.add_argument("--checks", default=""); ap.add_argument("--tier", default="quick")
a = ap.parse_args()
claimed = [c["property_id"] for c in json.load(open(os.path.join(VERIF, "MANIFEST.json")))["checks"]]
checks = [c for c in a.checks.split(",") if c] or claimed
bad = 0
for pf in sorted(glob.glob(os.path.join(VERIF, "benign", "*.diff"))):
    name = os.path.basename(pf)
    if a.names and not any(name.startswith(n) for n in a.names):
        continue
    scratch = f"/dev/shm/benignrepo-{os.getpid()}"
    shutil.rmtree(scratch, ignore_errors=True)
    shutil.copytree("/repo", scratch, ignore=shutil.ignore_patterns(".git", "build", "docs", "examples", "__pycache__", "*.egg-info"))
    r = subprocess.run(["patch", "-p1", "-s", "-d", scratch, "-i", pf], capture_output=True, text=True)
    if r.returncode != 0:
        print(name, "PATCH DOES NOT APPLY", (r.stdout + r.stderr)[:200]); continue
    t = subprocess.run(["/venv/bin/python", "-m", "pytest", "-q", "-p", "no:cacheprovider", "-x"], cwd=scratch, env=dict(os.environ, PYTHONPATH=scratch + "/src"), capture_output=True, text=True)
    res = {"tests": "pass" if t.returncode == 0 else "FAIL"}
    for c in checks:
        env = dict(os.environ, VERIF_REPO=scratch, XMC_EVIDENCE_DIR=f"/dev/shm/benign-ev-{os.getpid()}", XMC_REPLAY_DIR=f"/dev/shm/benign-rp-{os.getpid()}")
        t = subprocess.run([os.path.join(VERIF, "check"), c, "--tier", a.tier], env=env, capture_output=True, text=True)
        if t.returncode != 0:
            bad += 1
            res[c] = {"exit": t.returncode, "out": [ln for ln in t.stdout.splitlines() if ln.startswith("  clause=")][:3] or (t.stderr or t.stdout)[-300:]}
    print(name, "SILENT" if len(res) == 1 else "ALARM", json.dumps(res)[:600], flush=True)
    shutil.rmtree(scratch, ignore_errors=True)
    shutil.rmtree(f"/dev/shm/benign-ev-{os.getpid()}", ignore_errors=True); shutil.rmtree(f"/dev/shm/benign-rp-{os.getpid()}", ignore_errors=True)
sys.exit(1 if bad else 0)
