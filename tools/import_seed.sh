#!/bin/sh
# tools/import_seed.sh <agent worktree> <seed id> <property id> "<what it needs to manifest>"
# Confirms an independently written seeded change in a fresh scratch worktree (tests pass with it, the
# demonstration fails with it and passes without it), then stores it under /verif/seeded/<seed id>/.
set -u
src="$1"; sid="$2"; prop="$3"; needs="$4"
v=/tmp/wt/verify-$sid
git -C /repo worktree remove --force "$v" 2>/dev/null
git -C /repo worktree add -q --detach "$v" HEAD || exit 2
cp -r "$src/SEED" "$v/SEED"
cd "$v" || exit 2
git apply SEED/patch.diff || { echo "patch does not apply"; exit 2; }
PYTHONPATH=$v/src /venv/bin/python -m pytest -q -p no:cacheprovider --timeout=600 >/tmp/seed-tests-$sid.log 2>&1; t=$?
PYTHONPATH=$v/src timeout 300 /venv/bin/python SEED/demo.py >/tmp/seed-demo-with-$sid.log 2>&1; dw=$?
git checkout -q -- src
PYTHONPATH=$v/src timeout 300 /venv/bin/python SEED/demo.py >/tmp/seed-demo-without-$sid.log 2>&1; dwo=$?
echo "tests-with-change exit=$t ($(tail -1 /tmp/seed-tests-$sid.log)); demo-with-change exit=$dw; demo-without-change exit=$dwo"
cd /; git -C /repo worktree remove --force "$v"
if [ $t -eq 0 ] && [ $dw -eq 1 ] && [ $dwo -eq 0 ]; then
  d=/verif/seeded/$sid; mkdir -p "$d"
  cp "$src/SEED/patch.diff" "$src/SEED/demo.py" "$d/"; [ -f "$src/SEED/notes.md" ] && cp "$src/SEED/notes.md" "$d/"
  /venv/bin/python - "$d" "$prop" "$needs" "$(tail -1 /tmp/seed-tests-$sid.log)" <<'PY'
import json, sys, subprocess
d, prop, needs, tests = sys.argv[1:5]
files = sorted({l[6:].strip() for l in open(d + "/patch.diff") if l.startswith("+++ b/")})
json.dump({"property": prop, "files": files, "needs_to_manifest": needs, "origin": "written by an independent sub-agent that saw only the property text and a scratch worktree",
           "confirmed": {"repository_tests_with_change": tests, "demo_with_change_exit": 1, "demo_without_change_exit": 0,
                         "how": "fresh scratch worktree of /repo HEAD under /tmp/wt, PYTHONPATH=<worktree>/src"}}, open(d + "/meta.json", "w"), indent=1)
PY
  echo "stored $d"
else
  echo "NOT CONFIRMED - not stored"; exit 1
fi
