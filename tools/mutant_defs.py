"""Single-site mutants of cfdppy (name, file, old text, new text); pre-screened against the repository tests (DESIGN.md 7)."""
M=[]
def m(name, f, old, new): M.append((name,f,old,new))
D='src/cfdppy/handler/dest.py'; S='src/cfdppy/handler/source.py'; F='src/cfdppy/filestore.py'; C='src/cfdppy/handler/common.py'; MIB='src/cfdppy/mib.py'; CRC='src/cfdppy/crc.py'
m('C01a_no_verify_deferred', D, """            # We are done and have received everything.
            self._checksum_verify()""", """            # We are done and have received everything.
            self._params.finished_params.delivery_code = DeliveryCode.DATA_COMPLETE""")
m('C01b_no_verify_after_eofack', D, """            else:
                self._checksum_verify()
                if self.states.state == CfdpState.IDLE:""", """            else:
                self._params.finished_params.delivery_code = DeliveryCode.DATA_COMPLETE
                if self.states.state == CfdpState.IDLE:""")
m('C01c_complete_with_lost', D, """                self._params.acked_params.lost_seg_tracker.num_lost_segments > 0
                or self._params.acked_params.metadata_missing""", """                self._params.acked_params.lost_seg_tracker.num_lost_segments > 1
                or self._params.acked_params.metadata_missing""")
m('C02a_dir_join', D, "self._params.fp.file_name = self._params.fp.file_name.joinpath(source_base_name)", "self._params.fp.file_name = Path(source_base_name)")
m('C02b_id_width_min', S, """        larger_entity_width = max(
            self.cfg.local_entity_id.byte_len, self._put_req.destination_id.byte_len
        )""", """        larger_entity_width = min(
            self.cfg.local_entity_id.byte_len, self._put_req.destination_id.byte_len
        )""")
m('C03a_no_retx_waiting_finished', S, """        if self.transmission_mode == TransmissionMode.ACKNOWLEDGED and self.__handle_retransmission(
            packet_holder
        ):
            return
        if (
            packet_holder.pdu is None
            or packet_holder.pdu_directive_type is None""", """        if (
            packet_holder.pdu is None
            or packet_holder.pdu_directive_type is None""")
m('C03b_remove_lt', D, "if offset + data_len <= self._params.acked_params.last_start_offset:", "if offset + data_len < self._params.acked_params.last_start_offset:")
m('C04a_src_ack_gt', S, """                self._params.positive_ack_params.ack_counter + 1
                >= self._params.remote_cfg.positive_ack_timer_expiration_limit
            ):
                self._declare_fault(ConditionCode.POSITIVE_ACK_LIMIT_REACHED)
                return""", """                self._params.positive_ack_params.ack_counter + 1
                > self._params.remote_cfg.positive_ack_timer_expiration_limit
            ):
                self._declare_fault(ConditionCode.POSITIVE_ACK_LIMIT_REACHED)
                return""")
m('C04b_nak_no_timer_reset', D, """        self._params.acked_params.nak_activity_counter = 0
        self._params.acked_params.procedure_timer.reset()""", """        self._params.acked_params.nak_activity_counter = 0""")
m('C04c_nak_limit_plus1', D, "== self._params.remote_cfg.nak_timer_expiration_limit", "== self._params.remote_cfg.nak_timer_expiration_limit + 1")
m('C04d_nak_counter_not_reset', D, """        assert self._params.acked_params.procedure_timer is not None
        self._params.acked_params.nak_activity_counter = 0""", """        assert self._params.acked_params.procedure_timer is not None""")
m('C05a_no_truncate', D, """            if self.user.vfs.file_exists(self._params.fp.file_name):
                self.user.vfs.truncate_file(self._params.fp.file_name)
            elif (""", """            if self.user.vfs.file_exists(self._params.fp.file_name):
                pass
            elif (""")
m('C05b_write_before_lost_handling_offset', D, "self.user.vfs.write_data(self._params.fp.file_name, data, offset)", "self.user.vfs.write_data(self._params.fp.file_name, data, offset if offset > 0 else None)")
m('C05c_fs_seek_truthy', F, """            if offset is not None:
                of.seek(offset)
            of.write(data)""", """            if offset:
                of.seek(offset)
            else:
                of.seek(0, 2)
            of.write(data)""")
m('C06a_tail_gap_off_by_one', D, """            self._params.fp.progress < self._params.fp.file_size_eof  # type: ignore
        ) and self.transmission_mode""", """            self._params.fp.progress + 1 < self._params.fp.file_size_eof  # type: ignore
        ) and self.transmission_mode""")
m('C06b_nak_split_gt', D, "            if len(next_segment_reqs) >= max_segments_in_one_pdu:", "            if len(next_segment_reqs) > max_segments_in_one_pdu:")
m('C06c_imm_nak_scope', D, """                        0,
                        offset + data_len,
                        segment_requests=[lost_segment],""", """                        0,
                        offset,
                        segment_requests=[lost_segment],""")
m('C06d_no_coalesce', D, "        self._params.acked_params.lost_seg_tracker.coalesce_lost_segments()\n", "")
m('C07a_crc_flag_ignored', S, "self._params.pdu_conf.crc_flag = CrcFlag(self._params.remote_cfg.crc_on_transmission)", "self._params.pdu_conf.crc_flag = CrcFlag.NO_CRC")
m('C07b_seglen_pick_larger', S, """            and self._params.remote_cfg.max_file_segment_len < derived_max_seg_len
        ):""", """            and self._params.remote_cfg.max_file_segment_len != derived_max_seg_len
        ):""")
m('C07c_metadata_size_progress', S, """            closure_requested=self._params.closure_requested,
            file_size=self._params.fp.file_size,
        )""", """            closure_requested=self._params.closure_requested,
            file_size=self._params.fp.progress,
        )""")
m('C08a_retx_chunk_overshoot', S, "chunk_size = min(missing_chunk_len, self._params.fp.segment_len)", "chunk_size = self._params.fp.segment_len")
m('C08b_resume_wrong_step', S, """            assert self._params.ack_params.step_before_retransmission is not None
            self.states.step = self._params.ack_params.step_before_retransmission""", """            assert self._params.ack_params.step_before_retransmission is not None
            self.states.step = TransactionStep.SENDING_FILE_DATA""")
m('C08c_retx_advances_progress', S, """                self._prepare_file_data_pdu(current_offset, chunk_size)
                current_offset += chunk_size""", """                self._prepare_file_data_pdu(current_offset, chunk_size)
                self._params.fp.progress = max(self._params.fp.progress, current_offset + chunk_size)
                current_offset += chunk_size""")
m('C09a_modular_rjust', CRC, 'data.ljust(4, b"\\0")', 'data.rjust(4, b"\\0")')
m('C09b_crc_chunk_skip', F, "read_len = min(segment_len, size_to_verify - current_offset)", "read_len = min(segment_len, size_to_verify - current_offset - (1 if segment_len == 3 else 0))")
m('C09c_verify_always_prefix', F, """            self.calculate_checksum(checksum_type, file_path, size_to_verify, segment_len)
            == checksum""", """            self.calculate_checksum(checksum_type, file_path, size_to_verify, segment_len)[:3]
            == checksum[:3]""")
m('C10a_dest_leak_keyerror', D, "        end = self.lost_segments.get(segment_to_remove[0])", "        end = self.lost_segments.get(segment_to_remove[0]) if segment_to_remove[0] != 3 else self.lost_segments[3]")
m('C10b_src_state_change_before_reject', S, """        if get_packet_destination(packet) == PacketDestination.DEST_HANDLER:
            raise InvalidPduForSourceHandler(packet)""", """        if get_packet_destination(packet) == PacketDestination.DEST_HANDLER:
            self._params.fp.progress = 0
            raise InvalidPduForSourceHandler(packet)""")
m('C11a_src_fp_not_reset', S, """    def reset(self) -> None:
        self.fp.reset()
        self.remote_cfg = None""", """    def reset(self) -> None:
        self.remote_cfg = None""")
m('C11b_dest_module_scratch', D, """    def __init__(self):
        self.lost_segments = {}
""", """    _SCRATCH: dict = {}

    def __init__(self):
        self.lost_segments = LostSegmentTracker._SCRATCH
""")
m('C12a_cancel_crc_full', S, "self._prepare_eof_pdu(self._checksum_calculation(self._params.fp.progress))", "self._prepare_eof_pdu(self._checksum_calculation(self._params.fp.file_size))")
m('C12b_dest_cancel_floc_remote', D, """                ConditionCode.CANCEL_REQUEST_RECEIVED,
                EntityIdTlv(self.cfg.local_entity_id.as_bytes),""", """                ConditionCode.CANCEL_REQUEST_RECEIVED,
                EntityIdTlv(self._params.remote_cfg.entity_id.as_bytes),""")
m('C12c_disposition_always', D, """                self._params.remote_cfg.disposition_on_cancellation
                and self._params.finished_params.delivery_code == DeliveryCode.DATA_INCOMPLETE""", """                self._params.finished_params.delivery_code == DeliveryCode.DATA_INCOMPLETE""")
m('C13a_check_limit_gt', D, "if self._params.current_check_count + 1 >= self._params.remote_cfg.check_limit:", "if self._params.current_check_count + 1 > self._params.remote_cfg.check_limit:")
m('C13b_check_timer_not_reset', D, """                self._params.current_check_count += 1
                self._params.check_timer.reset()""", """                self._params.current_check_count += 1""")
m('C14a_ignore_calls_abandon_cb', MIB, """        elif fh_code == FaultHandlerCode.IGNORE_ERROR:
            self.ignore_cb(transaction_id, condition, progress)""", """        elif fh_code == FaultHandlerCode.IGNORE_ERROR:
            self.abandoned_cb(transaction_id, condition, progress)""")
m('C14b_dest_cancel_no_cond', D, """        self.states.step = TransactionStep.TRANSFER_COMPLETION
        self._params.finished_params.condition_code = condition_code
        self._params.completion_disposition = CompletionDisposition.CANCELED""", """        self.states.step = TransactionStep.TRANSFER_COMPLETION
        self._params.completion_disposition = CompletionDisposition.CANCELED""")
m('C15a_eof_recv_ungated', D, """        if self.cfg.indication_cfg.eof_recv_indication_required:
            assert self._params.transaction_id is not None
            self.user.eof_recv_indication(self._params.transaction_id)
        if eof_pdu.condition_code""", """        if True:
            assert self._params.transaction_id is not None
            self.user.eof_recv_indication(self._params.transaction_id)
        if eof_pdu.condition_code""")
m('C15b_seg_len_offset_swapped', D, """                length=len(file_data_pdu.file_data),
                offset=offset,""", """                length=offset,
                offset=len(file_data_pdu.file_data),""")
m('C16a_dest_path_isdir', D, "if self.user.vfs.is_directory(self._params.fp.file_name):", "if self._params.fp.file_name.is_dir():")
m('C17a_rename_overwrites', F, """        if new_file.exists():
            return FilestoreResponseStatusCode.RENAME_NEW_FILE_DOES_EXIST
""", "")
m('C17b_delete_dir_rmtree', F, """        if file.is_dir():
            return FilestoreResponseStatusCode.DELETE_NOT_ALLOWED""", """        if file.is_dir():
            shutil.rmtree(file)
            return FilestoreResponseStatusCode.DELETE_SUCCESS""")
m('C18a_coalesce_le', D, "            if seg_start == current_end:", "            if seg_start <= current_end + 1:")
m('C18b_remove_no_resort', D, """        if did_something:
            self.lost_segments = dict(sorted(self.lost_segments.items()))
        return did_something""", """        return did_something""")
m('C19a_closure_from_mib_only', S, """        closure_req_to_set = self._put_req.closure_requested
        if closure_req_to_set is None:
            closure_req_to_set = self._params.remote_cfg.closure_requested""", """        closure_req_to_set = self._params.remote_cfg.closure_requested""")
m('C19b_busy_put_overwrites', S, """            _LOGGER.debug("CFDP source handler is busy, can't process put request")
            return False""", """            _LOGGER.debug("CFDP source handler is busy, can't process put request")
            self._put_req = request
            return False""")
m('C20a_keepalive_to_dest', C, """        DirectiveType.FINISHED_PDU,
        DirectiveType.NAK_PDU,
        DirectiveType.KEEP_ALIVE_PDU,
    ]:""", """        DirectiveType.FINISHED_PDU,
        DirectiveType.NAK_PDU,
    ]:
        return PacketDestination.SOURCE_HANDLER
    if packet.directive_type in [  # type: ignore
        DirectiveType.KEEP_ALIVE_PDU,
    ]:
        return PacketDestination.DEST_HANDLER
    if False:""")

m('C03c_progress_regress', D, "self._params.fp.progress = max(next_expected_progress, self._params.fp.progress)", "self._params.fp.progress = next_expected_progress")
m('C04e_src_ack_timer_not_reset', S, """            self._params.positive_ack_params.ack_timer.reset()
            self._params.positive_ack_params.ack_counter += 1
            # The progress""", """            self._params.positive_ack_params.ack_counter += 1
            # The progress""")
m('C04f_dest_ack_counter_skip', D, """            self._params.positive_ack_params.ack_timer.reset()
            self._params.positive_ack_params.ack_counter += 1
            self._prepare_finished_pdu()""", """            self._params.positive_ack_params.ack_timer.reset()
            self._params.positive_ack_params.ack_counter += 2 if self._params.remote_cfg.positive_ack_timer_expiration_limit > 2 else 1
            self._prepare_finished_pdu()""")
m('C11c_shared_finished_params', D, """    def __init__(self):
        self.transaction_id: TransactionId | None = None
        self.remote_cfg: RemoteEntityCfg | None = None
        self.check_timer: Countdown | None = None
        self.current_check_count: int = 0
        self.closure_requested: bool = False
        self.checksum_type: ChecksumType = ChecksumType.NULL_CHECKSUM
        self.finished_params: FinishedParams = FinishedParams(
            delivery_code=DeliveryCode.DATA_INCOMPLETE,
            file_status=FileStatus.FILE_STATUS_UNREPORTED,
            condition_code=ConditionCode.NO_ERROR,
        )""", """    def __init__(
        self,
        finished_params: FinishedParams = FinishedParams(  # noqa: B008
            delivery_code=DeliveryCode.DATA_INCOMPLETE,
            file_status=FileStatus.FILE_STATUS_UNREPORTED,
            condition_code=ConditionCode.NO_ERROR,
        ),
    ):
        self.transaction_id: TransactionId | None = None
        self.remote_cfg: RemoteEntityCfg | None = None
        self.check_timer: Countdown | None = None
        self.current_check_count: int = 0
        self.closure_requested: bool = False
        self.checksum_type: ChecksumType = ChecksumType.NULL_CHECKSUM
        self.finished_params: FinishedParams = finished_params""")
m('C12d_cancel_wrong_id_true', S, """            self._notice_of_cancellation(ConditionCode.CANCEL_REQUEST_RECEIVED)
            return True
        return False""", """            self._notice_of_cancellation(ConditionCode.CANCEL_REQUEST_RECEIVED)
            return True
        return True""")
m('C13c_check_count_starts_at_one', D, """        self._params.current_check_count = 0
""", """        self._params.current_check_count = 1
""")
m('C14c_dest_abandon_cancels', D, """        elif fh == FaultHandlerCode.ABANDON_TRANSACTION:
            self._abandon_transaction()
        self.cfg.default_fault_handlers.report_fault(transaction_id, cond, progress)
        return fh""", """        elif fh == FaultHandlerCode.ABANDON_TRANSACTION:
            self._notice_of_cancellation(cond)
        self.cfg.default_fault_handlers.report_fault(transaction_id, cond, progress)
        return fh""")
m('C16b_dest_unlink_direct', D, "self.user.vfs.delete_file(self._params.fp.file_name)", "self._params.fp.file_name.unlink()")
m('C17c_rmdir_always_recursive', F, """        if recursive:
            shutil.rmtree(dir_name)""", """        if True:
            shutil.rmtree(dir_name)""")
m('C17d_replace_no_source_check', F, """        if not source_file.exists():
            return FilestoreResponseStatusCode.REPLACE_FILE_NAME_TWO_REPLACE_SOURCE_NOT_EXIST
        source_file.replace(replaced_file)""", """        if source_file.exists():
            source_file.replace(replaced_file)""")
m('C19c_busy_before_remote_check', S, """        self._params.remote_cfg = self.remote_cfg_table.get_cfg(request.destination_id)
        if self._params.remote_cfg is None:
            raise NoRemoteEntityCfgFound(entity_id=request.destination_id)""", """        self._params.remote_cfg = self.remote_cfg_table.get_cfg(request.destination_id)
        self.states.state = CfdpState.BUSY
        if self._params.remote_cfg is None:
            raise NoRemoteEntityCfgFound(entity_id=request.destination_id)""")
m('C20b_inactive_ack_no_error', D, "return AckPdu(pdu_conf, DirectiveType.EOF_PDU, eof_pdu.condition_code, status)", "return AckPdu(pdu_conf, DirectiveType.EOF_PDU, ConditionCode.NO_ERROR, status)")
m('C03d_dest_ignores_dup_metadata_restart', D, """        elif packet_holder.pdu_directive_type == DirectiveType.EOF_PDU:  # type: ignore
            self._handle_eof_pdu(packet_holder.to_eof_pdu())""", """        elif packet_holder.pdu_directive_type == DirectiveType.EOF_PDU:  # type: ignore
            self._handle_eof_pdu(packet_holder.to_eof_pdu())
        elif packet_holder.pdu_directive_type == DirectiveType.METADATA_PDU:  # type: ignore
            self._handle_metadata_packet(packet_holder.to_metadata_pdu())""")

