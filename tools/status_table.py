#!/venv/bin/python
"""Prints the per-property status table of DESIGN.md section 9 from the evidence files (numbers of the last run)."""
import json, os
HERE = os.path.dirname(os.path.abspath(__file__)); V = os.path.dirname(HERE)
WORLDS = {
 "C01": ("E2E chaos link + E2E K-fault link (flip, reject)", "chaos: unack sizes 0..2L x closure x CRC-32/32C x check limit 1,2; ack limits 1, sizes 0,L [0..2L, + limits 2 for L]; null/modular without corruption, also K=2 with 3 segments; pre-existing longer destination files; K<=2 [3]; cancel request x counted faults; request-level overrides with one fault; receiver limit faults set to 'ignore'; destination directory missing (`nodir`); two transactions with stale PDUs handed to the busy handler"),
 "C02": ("E2E fault-free", "product of modes, closure, NAK mode, sizes 0..2L+1 [..3L+1], 4 destination shapes, checksum types, CRC flag, id widths 1-8, seq widths 1-4, segment lengths 1,2,3,5,derived, metadata-only, request-level mode/closure overrides, two consecutive transactions [5.7e3 configurations]; a premature (refused) put request at any point; second transaction after the source file was rewritten"),
 "C03": ("E2E K-fault, limits K+1", "K<=1 sizes 0,1,L,L+1,2L+1; K=2 sizes 0,L,L+1 [all sizes, K=3 sizes 0,L,L+1]; both NAK modes, closure; existing destinations; two consecutive transactions sharing K<=2 faults; multi-PDU NAK sequences (max_packet_len 27); acknowledged request over an unacknowledged MIB default; unacknowledged-with-closure first, faults in the acknowledged second transaction"),
 "C04": ("SRC + DST, reference retry automata with their own clock", "limits N in 1..3 for EOF, Finished, NAK procedures [all 9 limit pairs]; NAKs at the sender during the EOF wait; cancellation exchange and abandonment; NAK and cancel request also after the EOF was acknowledged"),
 "C05": ("DST + write model", "depth 5 [7], 16-event alphabet, both modes, NAK modes, 4 destination shapes, disposition, second transaction; PDUs with the large-file flag"),
 "C06": ("DST (ack) + interval model", "2-3 segments [up to 4], each PDU <=2 copies, max_packet_len 512 / 35 / 27; large-file-flag PDUs (max_packet_len 43 / 59); Metadata announcing size 0 (unbounded file)"),
 "C07": ("SRC, configuration product + large-file prefix runs", "every size 0..3L+1 x L in 1..5; derived segment lengths (configured <,=,> derived); widths; checksum types; 36 prefix runs of a 2^32+5 byte file; one failing filestore read at any point; Finished PDUs with another CRC flag / id width; request x MIB mode/closure product (72 worlds)"),
 "C08": ("SRC (ack), NAK alphabet", "all pairs over offsets {0, seg, size-1, size, size+1, 2^32-1} + 2-request NAKs, <=2 NAKs per run [<=2], 5 put requests incl. one carrying every option list; configured segment length larger than derived; two transactions on one handler"),
 "C09": ("CKSUM", "all 256 one-byte files; 5-letter alphabet to length 4 [6]; {00,FF} to length 9 [11]; every prefix x chunk x type; CKSBIG: 2 patterns x 6 [11] boundary lengths up to 70001 [131073] x boundary prefixes x boundary chunks x type"),
 "C10": ("SRC + DST wide alphabet, partial draining, late-state prefixes", "depth 5 [7] from idle, depth 8 [10] from 9 late states, modular checksum over 5 x 0xFF (word sum past 2^32) in 4 worlds, 15-38 events; Metadata PDUs with unusual destination names / one name missing; destination shape `dir_dir`; invariants num_packets_ready == queue length, no queued PDU vanishes"),
 "C11": ("HIST-DST, HIST-SRC, SIBLING", "history depth 5 / 7 [6 / 9], 7 + 9 follow-up scripts (gap, late metadata, cancel, silence, request overrides, re-sends), 8+8 step sibling scripts; histories ending by abandonment (overridden handler codes); follow-ups after the source file was rewritten"),
 "C12": ("SRC + DST with cancel requests", "sizes 0, L-1, 2L+1, both modes, closure, disposition, CRC-32/modular, metadata-only, <=2 cancel requests and <=2 NAKs per run, EOF(cancel) before and during the check-limit wait; EOF(cancel) before the Metadata and while missing data is re-requested; second transaction at the sender; cancel request followed at once by a put request"),
 "C13": ("DST (unack) + SRC, reference automaton with its own clock", "<=3 segments, check limits 1..3, closure, CRC-32/32C [62 configurations]; metadata-only request with closure at the sender"),
 "C14": ("SRC + DST per scenario x handler code, two fault-handler tables", "14 scenarios x {ignore, cancel, abandon}, 7-16 calls per run, second transactions; callback progress vs the handler's progress before the call; set_handler enumerated with a sibling table; plus never-acknowledged Finished(cancel), destination `nodir` / `dir_dir`, disposition with nothing to delete"),
 "C15": ("E2E (ff, K=1, cancel, two transactions)", "16 switch settings x 3 mode/closure; 6 message lists; K=1; cancel requests; second transaction with request-level overrides; cancel request + one fault; positive ACK limit 1; receiver world with PDUs of another transaction (depth 5 [7])"),
 "C16": ("E2E pair native / in-memory", "C02-style subset incl. 4 destination shapes, K=1, cancel requests with disposition and modular checksum [K=2, drop+cancel]; uncreatable destinations, refused writes, handler codes abandon / ignore"),
 "C17": ("FS", "fixed point over paths a,b,d,d/a [+ d/b], 5 write / 5 read variants"),
 "C18": ("TRK", "fixed point, offsets 0..9 [0..12]"),
 "C19": ("SRC without initial request + PAIR", "36 mode/closure settings, 5 put variants at every step, <=2 transactions, <=3 [4] attempts; 2 handlers sharing a provider; whole-file NAK with configured vs derived segment length"),
 "C20": ("ROUTE (E2E + probe transitions, second ACK probe) + ACK-INACTIVE", "288 PDU shapes x every state of ff and single-drop graphs; 640 acknowledge_inactive_eof_pdu cases"),
}
def sci(n):
    return f"{n:.1e}".replace("e+0", "e") if n >= 10000 else str(n)
print("| id | world(s) | configurations / states / transitions (last quick run) | bounds (quick; thorough in brackets) | wall |\n|---|---|---|---|---|")
for pid in sorted(WORLDS):
    e = json.load(open(os.path.join(V, "evidence", pid + ".json"))); c = e["coverage"]
    print(f"| {pid} | {WORLDS[pid][0]} | {c['configurations']} / {sci(c['states'])} / {sci(c['transitions'])} | {WORLDS[pid][1]} | {e['wall_s']:.0f} s |")
