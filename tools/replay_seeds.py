#!/venv/bin/python
"""Fast regression test of the machinery without any exploration: for every seed, the stored counterexample
(seeded/<id>/counterexample.json) is replayed by the standalone replayer against a scratch copy of /repo with
the seed applied (must reproduce: exit 1) and against the unchanged tree (must not: exit 0)."""
import glob, json, os, shutil, subprocess, sys
HERE = os.path.dirname(os.path.abspath(__file__)); VERIF = os.path.dirname(HERE)
bad = 0
for d in sorted(glob.glob(os.path.join(VERIF, "seeded", "*"))):
    ce = os.path.join(d, "counterexample.json")
    if not os.path.exists(ce):
        continue
    prop = json.load(open(ce))["property"]
    scratch = f"/dev/shm/replayrepo-{os.getpid()}"
    shutil.rmtree(scratch, ignore_errors=True)
    shutil.copytree("/repo/src", scratch + "/src")
    r = subprocess.run(["patch", "-p1", "-s", "-d", scratch, "-i", os.path.join(d, "patch.diff")], capture_output=True, text=True)
    w = subprocess.run([os.path.join(VERIF, "check"), prop, "--replay", ce], env=dict(os.environ, VERIF_REPO=scratch), capture_output=True, text=True)
    wo = subprocess.run([os.path.join(VERIF, "check"), prop, "--replay", ce], capture_output=True, text=True)
    ok = w.returncode == 1 and wo.returncode == 0
    bad += not ok
    print(os.path.basename(d), "ok" if ok else f"MISMATCH with-seed rc={w.returncode} unchanged rc={wo.returncode}", flush=True)
    shutil.rmtree(scratch, ignore_errors=True)
sys.exit(1 if bad else 0)
