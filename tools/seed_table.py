#!/venv/bin/python
"""Prints the markdown table of DESIGN.md section 7.1 from seeded/*/meta.json."""
import glob, json, os
HERE = os.path.dirname(os.path.abspath(__file__))
print("| seed | breaks | needs to manifest | caught by (quick tier) |\n|---|---|---|---|")
for f in sorted(glob.glob(os.path.join(HERE, "..", "seeded", "*", "meta.json"))):
    m = json.load(open(f))
    print(f"| {os.path.basename(os.path.dirname(f))} | {m['property']} | {m['needs_to_manifest']} | {m.get('detected_by', '?')} |")
