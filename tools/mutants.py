#!/venv/bin/python
"""Apply catalogue mutants to a scratch copy of /repo (under /dev/shm), run the repository tests and the
given checks against it, report which check kills which mutant.

usage: tools/mutants.py [--tests] [--tier quick] [--checks C02,C03] [name-prefix ...]
A mutant named Cxx... is run against check Cxx by default."""
import argparse, json, os, shutil, subprocess, sys, time
HERE = os.path.dirname(os.path.abspath(__file__))
sys.path.insert(0, HERE)
from mutant_defs import M  # noqa: E402

ap = argparse.ArgumentParser()
ap.add_argument("names", nargs="*")
ap.add_argument("--tests", action="store_true")
ap.add_argument("--tier", default="quick")
ap.add_argument("--checks", default="")
ap.add_argument("--jobs", type=int, default=1)
a = ap.parse_args()
res = {}
for name, f, old, new in M:
    if a.names and not any(name.startswith(n) for n in a.names):
        continue
    dst = f"/dev/shm/mutrepo-{os.getpid()}"
    shutil.rmtree(dst, ignore_errors=True)
    shutil.copytree("/repo", dst, ignore=shutil.ignore_patterns(".git", "build", "docs", "examples", "__pycache__", "*.egg-info"))
    p = os.path.join(dst, f)
    s = open(p).read()
    if s.count(old) != 1:
        res[name] = {"patch": f"ERROR count={s.count(old)}"}
        print(name, res[name], flush=True)
        continue
    open(p, "w").write(s.replace(old, new))
    r = {}
    if a.tests:
        env = dict(os.environ, PYTHONPATH=dst + "/src", PYTHONDONTWRITEBYTECODE="1")
        t = subprocess.run(["/venv/bin/python", "-m", "pytest", "-q", "-p", "no:cacheprovider", "-x", "--timeout=120"], cwd=dst, env=env, capture_output=True, text=True)
        r["tests"] = "pass" if t.returncode == 0 else "FAIL"
    checks = [c for c in a.checks.split(",") if c] or [name[:3]]
    for c in checks:
        t0 = time.time()
        env = dict(os.environ, VERIF_REPO=dst, XMC_EVIDENCE_DIR=f"/dev/shm/mut-evidence-{os.getpid()}", XMC_REPLAY_DIR=f"/dev/shm/mut-replays-{os.getpid()}")
        t = subprocess.run([os.path.join(HERE, "..", "check"), c, "--tier", a.tier], env=env, capture_output=True, text=True)
        viol = [ln for ln in t.stdout.splitlines() if ln.startswith("  clause=")]
        r[c] = {"exit": t.returncode, "wall": round(time.time() - t0, 1), "clauses": sorted({ln.split()[0][9:] for ln in viol})[:6]}
        if t.returncode == 2:
            r[c]["err"] = (t.stderr or t.stdout)[-300:]
    res[name] = r
    print(name, json.dumps(r), flush=True)
    shutil.rmtree(dst, ignore_errors=True)
    shutil.rmtree(f"/dev/shm/mut-evidence-{os.getpid()}", ignore_errors=True)
    shutil.rmtree(f"/dev/shm/mut-replays-{os.getpid()}", ignore_errors=True)
