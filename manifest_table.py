NOTE = "trusted: CPython, spacepackets 0.26.1 PDU classes, the harness (xmc engine, reference models); every explored path is an execution of the real cfdppy code from /repo's working tree; root-replay validation re-executes sampled paths without snapshots"
CLAIMED = {
 "C18": ("explicit-state BFS to fixed point over the real LostSegmentTracker vs interval-set reference model",
         "complete enumeration of every reachable tracker content over offsets 0..N (N=6 quick, 8 thorough) under all add/remove/coalesce operations in the property's alphabet, with step-wise agreement against an independent range-list model",
         NOTE, "DESIGN.md 4 C18"),
}
NOT_YET = {}
