NOTE = "trusted: CPython, spacepackets 0.26.1 PDU classes, the harness (xmc engine, reference models); every explored path is an execution of the real cfdppy code from /repo's working tree; root-replay validation re-executes sampled paths without snapshots"
CLAIMED = {
 "C01": ("explicit-state BFS over the real SourceHandler+DestHandler on a chaos link (set of ever-sent PDUs: unbounded loss/duplication/reordering/delay, payload bit flips, write rejections, free time) and on a K-fault FIFO link; safety oracle inside every Transaction-Finished indication / at every Finished PDU",
         "complete reachable graph per configuration (unacknowledged: sizes 0..2L x closure x CRC-32/CRC-32C x check limit; acknowledged: limits 1, both NAK modes; null/modular without corruption; K<=2 quick / 3 thorough counted faults incl. flips and rejections): wherever success is reported the destination file is read at that moment and must equal the source byte for byte",
         NOTE, "DESIGN.md 4 C01"),
 "C02": ("explicit-state BFS over the real SourceHandler+DestHandler on a fault-free FIFO link: all interleavings of state-machine calls and deliveries, terminal-state classification + cycle search, per configuration",
         "complete reachable graph of the two real handlers for every configuration of a stated product (modes, closure, NAK mode, checksum types, CRC flag, id/sequence widths, segment lengths incl. derived, sizes 0..3L+1, destination shapes, metadata-only); every terminal state must be a successful completion, no exception, no fault callback, no cycle",
         NOTE, "DESIGN.md 4 C02"),
 "C03": ("explicit-state BFS over the real SourceHandler+DestHandler on a FIFO link with at most K counted drop/duplicate/delay faults, urgent per-entity virtual time; terminal-state classification + non-progress cycle search",
         "complete reachable graph for K<=2 (quick; K<=3 thorough) faults on every PDU in either direction, sizes 0..2L+1, both NAK modes, closure on/off, limits K+1: finite DAG whose sinks are all successful completions, i.e. every fair execution with <=K faults delivers the file",
         NOTE, "DESIGN.md 4 C03"),
 "C18": ("explicit-state BFS to fixed point over the real LostSegmentTracker vs interval-set reference model",
         "complete enumeration of every reachable tracker content over offsets 0..N (N=6 quick, 8 thorough) under all add/remove/coalesce operations in the property's alphabet, with step-wise agreement against an independent range-list model",
         NOTE, "DESIGN.md 4 C18"),
}
NOT_YET = {}
