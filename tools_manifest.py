#!/venv/bin/python
"""Regenerates MANIFEST.json from the table below (keeps it valid at all times)."""
import json, os
HERE = os.path.dirname(os.path.abspath(__file__))
CLAIMED = {
 # id: (technique, level text, level note)
}
import importlib, sys
sys.path.insert(0, HERE)
from manifest_table import CLAIMED, NOT_YET
props = [json.loads(l) for l in open(os.path.join(HERE, "properties.jsonl"))]
checks = []
na = []
for p in props:
    pid = p["id"]
    if pid in CLAIMED:
        tech, text, note, ref = CLAIMED[pid]
        checks.append({
            "property_id": pid,
            "quick_cmd": f"./check {pid} --tier quick",
            "thorough_cmd": f"./check {pid} --tier thorough",
            "evidence_file": f"/verif/evidence/{pid}.json",
            "replay_cmd_template": f"./check {pid} --replay {{path}}",
            "engine": "xmc",
            "level_claimed": {"category": "model_checking", "text": text, "design_ref": ref},
            "level_note": note,
            "technique": tech,
        })
    else:
        na.append({"property_id": pid, "reason": NOT_YET.get(pid, "check not built yet in this session (planned, see DESIGN.md section 4); not claimed until it exists")})
m = {
 "version": 1,
 "setup_cmd": "/venv/bin/python -c 'import sys; sys.path.insert(0, \"/repo/src\"); import cfdppy, spacepackets, crcmod' && chmod +x /verif/check",
 "hooks": {
  "guard": "CFDPPY_VERIF",
  "enable": "no hooks: the checks drive the unmodified package from /repo/src (pure Python, imported from the working tree); time, filestore, users, fault handlers are injected through the library's own extension points and by replacing spacepackets.countdown.time_ms from the harness. The guard name is reserved and unused.",
  "baseline_off_cmd": "cd /repo && /venv/bin/python -m pytest -ra -q -p no:cacheprovider --timeout=900 --continue-on-collection-errors",
  "source_commits": [],
  "add_only": True,
 },
 "engines": [{"name": "xmc", "path": "/verif/xmc", "serves_properties": sorted(CLAIMED),
              "kind_free_text": "explicit-state breadth-first model checker over the real cfdppy objects: pickle snapshots with a global-state registry, canonical-key deduplication, virtual per-entity time, stutter/terminal classification, cycle detection, shortest counterexamples, root-replay validation of explored paths"}],
 "checks": checks,
 "not_applicable": na,
 "notes": "All checks: ./check <ID> --tier quick|thorough; exit 0 held / 1 VIOLATION / 2 harness error. VERIF_REPO=<dir> points the checks at another working tree (mutant screening).",
}
json.dump(m, open(os.path.join(HERE, "MANIFEST.json"), "w"), indent=1)
print("claimed", sorted(CLAIMED), "not claimed", [x["property_id"] for x in na])
