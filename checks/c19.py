"""C19 - put requests are admitted, parameterised and identified correctly (DESIGN.md 4, C19).

World SRC without an initial request: valid / empty-file / metadata-only / missing-file /
unknown-entity put requests are injected at every reachable step (and after every kind of ending);
request-level x MIB-level mode and closure settings; plus two handlers sharing one sequence-number
provider, all interleavings."""
from __future__ import annotations

import itertools

from spacepackets.seqcount import SeqCountProvider

from checks.c07 import eff_seg, judge_stream
from env import core
from env.src import EMPTY_PATH, SrcWorld
from xmc import NPROC, canon, sandbox
from xmc.engine import Violation, World, explore_many
from xmc.report import Run

P = "C19"
PUTS = ("valid", "empty", "mdonly", "missing", "unknown")


def effective(c):
    mode = c["mode"] if c["req_mode"] in ("same", "none") else c["req_mode"]
    closure = c["closure"] if c["req_closure"] in ("same", "none") else c["req_closure"]
    return mode, closure


class C19World(SrcWorld):
    prop = P
    name = "SRC-C19"
    autoput = False

    def init_model(self, st):
        st.m = {"cur": None, "stream": [], "covered": 0, "attempts": 0, "naks": 0}

    def enabled(self, st):
        step = st.S.h.states.step.name
        evs = [("tick",)]
        if step == "WAITING_FOR_EOF_ACK":
            evs.append(("ackeof",))
        if step == "WAITING_FOR_FINISHED":
            evs.append(("fin", "NO_ERROR", "DATA_COMPLETE", "FILE_RETAINED"))
        if step == "WAITING_FOR_EOF_ACK" and st.m["naks"] < self.cfg.get("naks", 0) and (st.m["cur"] or {}).get("variant") in ("valid", "valid_wide") \
                and not (st.m["cur"] or {}).get("cancelled"):
            evs.append(("nak", ((0, self.c["size"]),)))  # the whole file is re-requested: re-sent segments obey the same segment length
        if st.S.h.state.name == "BUSY" and st.m["cur"] is not None and st.m["stream"]:
            evs.append(("cancel", "right"))
        if st.m["attempts"] < self.cfg.get("max_attempts", 4) and st.nput < self.cfg.get("max_tx", 2) + 0:
            evs += [("put", p) for p in PUTS]
        return evs

    def apply(self, st, ev):
        if ev[0] == "put":
            k0 = canon.canon_str(st.S.h.states, st.S.h._params, st.S.h._put_req, list(st.S.h._pdus_to_be_sent), st.S.h.seq_num_provider)
            t0 = sandbox.tree()
        out = super().apply(st, ev)
        if ev[0] == "put":
            sandbox.invalidate()
            k1 = canon.canon_str(st.S.h.states, st.S.h._params, st.S.h._put_req, list(st.S.h._pdus_to_be_sent), st.S.h.seq_num_provider)
            out["unchanged"] = (k0 == k1 and t0 == sandbox.tree())
        return out

    def update_model(self, st, ev, out):
        m = dict(st.m)
        out["pre_stream"] = list(m["stream"])
        out["pre_covered"] = m["covered"]
        out["pre_cur"] = m["cur"]
        if ev[0] == "put":
            m["attempts"] += 1
            if out.get("ret") is True:
                m["cur"] = {"variant": ev[1], "seq": st.nput - 1}
                m["stream"] = []
                m["covered"] = 0
        if ev[0] == "cancel" and out.get("ret") is True:
            m["cur"] = dict(m["cur"], cancelled=True)
        stream = list(m["stream"])
        if ev[0] == "nak":
            m["naks"] += 1
            st.m = m
            return  # retransmissions are not part of the original stream
        for d in self.emitted(out):
            stream.append(d["T"])
            if d["T"] == "FD":
                m["covered"] += len(d["data"]) // 2
        m["stream"] = stream
        st.m = m

    def quiet(self, obs):
        return "S" not in obs and obs.get("pre_step") == obs.get("post_step") and "ret" not in obs

    def check(self, st, ev, out):
        v = []
        c = self.c

        def bad(clause, msg, **d):
            v.append(Violation(P, clause.replace("C07.", "C19.stream_"), f"{ev} ({out['pre_state']}/{out['pre_step']} -> {out['post_state']}/{out['post_step']}): {msg}", **d))

        e = self.exc(out)
        if ev[0] == "put":
            variant = ev[1]
            if out["pre_state"] != "IDLE":
                if out.get("ret") is not False or e:
                    bad("C19.busy_accept", f"put request on a busy handler returned {out.get('ret')!r} / raised {e['exc'] if e else None}", exc=e["exc"] if e else None)
                if not out["unchanged"]:
                    bad("C19.busy_changed", "refused put request changed the state of the running transaction")
                return v
            if variant in ("missing", "unknown"):
                want = "SourceFileDoesNotExist" if variant == "missing" else "NoRemoteEntityCfgFound"
                if not e or e["exc"] != want:
                    bad("C19.bad_request", f"expected {want}, got {e['exc'] if e else 'return ' + repr(out.get('ret'))}", variant=variant, got=e["exc"] if e else None)
                if out["post_state"] != "IDLE":
                    bad("C19.bad_request_state", f"handler is {out['post_state']} after a rejected put request", variant=variant)
                return v
            if e or out.get("ret") is not True:
                bad("C19.idle_reject", f"valid put request on an idle handler: returned {out.get('ret')!r}, raised {e['exc'] if e else None}", variant=variant)
            return v
        # all other calls: the emitted stream of the current transaction follows the request and the override rule
        cur = out["pre_cur"]
        if ev[0] == "cancel":
            # the cancel call and what it emits are judged by C12; here only the identification
            for d in self.emitted(out):
                if cur is not None and d["seq"] != [cur["seq"], c["seqw"]]:
                    bad("C19.seq", f"{d['T']} PDU carries sequence number {d['seq']}, expected {cur['seq']}")
            return v
        if e and not (ev[0] in ("ackeof", "fin") and e["protocol"]):
            bad("C19.exception", f"{e['exc']} from {e['site']}: {e['msg']}", exc=e["exc"], site=e["site"], variant=cur["variant"] if cur else None,
                second=bool(cur and cur["seq"] > 0))
            return v
        emitted = self.emitted(out)
        if not emitted:
            return v
        if cur is None:
            bad("C19.ghost", f"PDUs {[d['T'] for d in emitted]} emitted without an accepted put request")
            return v
        mode, closure = effective(c)
        ceff = dict(c, mode=mode, closure=closure, md_only=(cur["variant"] == "mdonly"))
        src = st.src
        if cur["variant"] == "empty":
            src = b""
            ceff["_sname"] = EMPTY_PATH
        if cur.get("cancelled"):
            # after a cancel request: judged by C12; only the identification is checked here
            for d in emitted:
                if d["seq"] != [cur["seq"], c["seqw"]]:
                    bad("C19.seq", f"{d['T']} PDU carries sequence number {d['seq']}, expected {cur['seq']}")
            return v
        if ev[0] == "nak":
            from checks.c07 import eff_seg
            for d in emitted:
                if d["T"] == "FD" and len(d["data"]) // 2 > eff_seg(ceff):
                    bad("C19.segment_len_retransmission", f"re-sent File Data PDU carries {len(d['data']) // 2} bytes, the effective segment length "
                                                          f"min(configured, derived from max_packet_len) is {eff_seg(ceff)}")
                if d["seq"] != [cur["seq"], c["seqw"]]:
                    bad("C19.seq", f"{d['T']} PDU carries sequence number {d['seq']}, expected {cur['seq']}")
            return v
        judge_stream(ceff, src, cur["seq"], out["pre_stream"], out["pre_covered"], emitted, bad)
        return v

    def outcome(self, st):
        return [st.S.h.states.step.name, st.nput]


class _Pair:
    pass


class PairWorld(World):
    """Two SourceHandlers of one entity sharing the sequence-number provider; all interleavings."""

    prop = P
    name = "SRC-PAIR"

    def build(self):
        import os

        c = core.full_cfg(self.cfg)
        st = _Pair()
        os.makedirs("in", exist_ok=True)
        with open(core.SRC_PATH, "wb") as f:
            f.write(core.content(c["size"]))
        prov = SeqCountProvider(c["seqw"] * 8)
        st.A = core.make_source(c, seq_provider=prov)
        st.B = core.make_source(c, seq_provider=prov)
        st.order = []  # handler names in the order of their transaction starts
        st.puts = {"A": 0, "B": 0}
        st.tids = []
        return st

    def consts(self, st):
        return core.entity_consts(st.A) + core.entity_consts(st.B)

    def enabled(self, st):
        evs = []
        for h in ("A", "B"):
            evs.append(("tick", h))
            if st.puts[h] < 2:
                evs.append(("put", h))
        return evs

    def apply(self, st, ev):
        c = core.full_cfg(self.cfg)
        ent = getattr(st, ev[1])
        out = {}
        if ev[0] == "put":
            obs, msgs, ret = ent.call(ent.h.put_request, core.put_request(c))
            if ret:
                st.puts[ev[1]] += 1
            out["ret"] = ret
        else:
            obs, msgs = ent.step(None)
        if msgs:
            obs["out"] = [m.d for m in msgs]
        if obs:
            out["h"] = obs
        for r in obs.get("ind", []):
            if r["ind"] == "transaction":
                st.order.append(ev[1])
                out["expected_seq"] = len(st.order) - 1
                st.tids.append(r["tid"])
        return out

    def quiet(self, obs):
        return not obs or obs == {"ret": False}

    def check(self, st, ev, out):
        v = []
        o = out.get("h", {})
        if "exc" in o:
            v.append(Violation(P, "C19.pair_exception", f"{ev}: {o['exc']}", exc=o["exc"]["exc"]))
        if "expected_seq" in out:
            tid = st.tids[-1]
            if tid[1] != out["expected_seq"]:
                v.append(Violation(P, "C19.pair_seq", f"{ev}: transaction {tid} started as number {out['expected_seq']} of the shared provider"))
            if st.tids.count(tid) > 1:
                v.append(Violation(P, "C19.pair_duplicate_id", f"{ev}: transaction id {tid} issued twice ({st.tids})"))
            for d in o.get("out", []):
                if d["seq"][0] != tid[1]:
                    v.append(Violation(P, "C19.pair_pdu_seq", f"{ev}: PDU carries sequence number {d['seq']} but the transaction is {tid}"))
        return v


def configs(tier):
    out = []
    for rm, mm, rc, mc in itertools.product(("none", "ack", "unack"), ("ack", "unack"), ("none", True, False), (True, False)):
        out.append(dict(req_mode=rm, mode=mm, req_closure=rc, closure=mc, size=3, seg=2, max_tx=2 if tier == "thorough" else (2 if (rm, rc) == ("none", "none") else 1),
                        max_attempts=4 if tier == "thorough" else 3))
    # segment length: configured None / smaller / larger than derived (derived = 6 with mpl 20)
    for seg in (None, 4, 9):
        out.append(dict(mode="unack", closure=False, size=13, seg=seg, mpl=4 + 4 + 2 + 4 + 6, max_tx=1, max_attempts=2))
        out.append(dict(mode="ack", closure=False, size=13, seg=seg, mpl=4 + 4 + 2 + 4 + 6, max_tx=1, max_attempts=1, naks=1))
    return out


def run(tier: str) -> int:
    run_ = Run(P, tier, assumptions=[
        "sequence numbers are drawn when a transaction starts (first state-machine call after the accepted put request)",
        "after a cancel request the remaining PDUs are judged by C12; here only their transaction id",
    ])
    cfgs = configs(tier)
    worlds = [C19World(**kw) for kw in cfgs]
    worlds.append(PairWorld(mode="unack", closure=False, size=3, seg=2))
    worlds.append(PairWorld(mode="ack", closure=False, size=1, seg=2))
    run_.bounds = {"mode_closure_settings": 36, "put_variants": PUTS, "max_transactions_per_run": 2, "max_put_attempts": 4 if tier == "thorough" else 3}
    results = explore_many(worlds, procs=NPROC, check_cycles=False, validate_stride=499, validate_terminals=3, n_samples=1, max_states=500_000)
    run_.add_all(results)
    return run_.finish(rule="complete reachable graph per configuration: every put variant at every reachable step incl. after completion, cancellation and rejected requests; two handlers with a shared provider fully interleaved")
