"""C06 - NAKs request exactly what is missing (DESIGN.md 4, C06).

World DST (acknowledged mode) + an independent interval model of the bytes stored so far.  Every
PDU of a grid-segmented file (Metadata, the n segments, EOF) is deliverable 0, 1 or 2 times in
any order, interleaved with ticks and NAK-timer expiries."""
from __future__ import annotations

import itertools

from env.dst import DstWorld
from xmc import NPROC
from xmc.engine import Violation, explore, explore_many
from xmc.report import Run

P = "C06"


def merge(ivs):
    out = []
    for s, e in sorted(ivs):
        if e <= s:
            continue
        if out and s <= out[-1][1]:
            out[-1] = (out[-1][0], max(out[-1][1], e))
        else:
            out.append((s, e))
    return out


def subtract(total, stored):
    """[0,total) minus stored intervals."""
    out, pos = [], 0
    for s, e in merge(stored):
        if s > pos:
            out.append((pos, min(s, total)))
        pos = max(pos, e)
        if pos >= total:
            break
    if pos < total:
        out.append((pos, total))
    return [(s, e) for s, e in out if e > s]


def overlaps(iv, stored):
    return any(max(iv[0], s) < min(iv[1], e) for s, e in stored)


class C06World(DstWorld):
    prop = P
    name = "DST-C06"

    def __init__(self, **cfg):
        super().__init__(**cfg)
        size, seg = self.c["size"], self.c["seg"]
        segs = [("fd", o, min(seg, size - o), 0) for o in range(0, size, seg)]
        self.alphabet = [("md",)] + segs + [("eof", size, "NO_ERROR", 1), ("tick",), ("expire",)]
        self.rep = cfg.get("rep", 2)

    def init_model(self, st):
        st.m = {"md": False, "eof": None, "eof_calls": 0, "stored": [], "extent": 0, "cnt": {}, "done": False}

    def enabled(self, st):
        if st.m["done"]:
            return []
        evs = []
        for e in super().enabled(st):
            if e[0] in ("md", "fd", "eof") and st.m["cnt"].get(repr(e), 0) >= self.rep:
                continue
            evs.append(e)
        return evs

    def update_model(self, st, ev, out):
        m = dict(st.m)
        m["cnt"] = dict(m["cnt"])
        pre = {"md": m["md"], "eof": m["eof"], "eof_calls": m["eof_calls"], "stored": list(m["stored"])}
        out["pre_model"] = pre
        if ev[0] in ("md", "fd", "eof"):
            m["cnt"][repr(ev)] = m["cnt"].get(repr(ev), 0) + 1
        if m["eof"] is not None:
            m["eof_calls"] = min(2, m["eof_calls"] + 1)
        if self.inds(out, "metadata_recv"):
            m["md"] = True
        if ev[0] == "fd":
            m["extent"] = max(m["extent"], ev[1] + ev[2])
            if self.inds(out, "file_segment_recv") and not self.exc(out) and pre["md"]:
                m["stored"] = [list(x) for x in merge([tuple(x) for x in m["stored"]] + [(ev[1], ev[1] + ev[2])])]
        if ev[0] == "eof" and not self.exc(out) and self.inds(out, "eof_recv"):
            if m["eof"] is None:
                m["eof"] = ev[1]
            m["extent"] = max(m["extent"], ev[1])
        if self.emitted(out, "FIN") or self.idle(st) and (pre["md"] or pre["eof"] is not None or m["extent"]):
            m["done"] = True  # the property is about the time before completion
        st.m = m

    def check(self, st, ev, out):
        v = []
        m = st.m
        pre = out["pre_model"]
        naks = self.emitted(out, "NAK")
        mpl = self.c["mpl"]
        stored = [tuple(x) for x in m["stored"]]
        md_missing_before = not pre["md"]
        md_missing_after = not m["md"]

        def bad(clause, msg, **d):
            v.append(Violation(P, clause, f"after {ev} ({out['pre_step']} -> {out['post_step']}, stored {stored}, eof {m['eof']}, metadata {'present' if m['md'] else 'missing'}): {msg}",
                               nak_mode=self.c["nak"], **d))

        e = self.exc(out)
        if e and not e["protocol"]:
            bad("C06.exception", f"{e['exc']} from {e['site']}", exc=e["exc"], site=e["site"])
        # A request is computed at some point *during* the call: before or after the inbound PDU was
        # processed.  It is therefore judged against the state before the call (bytes stored then) and
        # the union against either the state before or the state after the call.
        stored_pre = [tuple(x) for x in pre["stored"]]
        allreqs = []
        for n in naks:
            reqs = [tuple(r) for r in n["reqs"]]
            allreqs.extend(reqs)
            for s, e_ in reqs:
                if (s, e_) == (0, 0):
                    if not md_missing_before:
                        bad("C06.metadata_request", f"NAK {n['reqs']} requests the metadata (0,0) although it was present before the call", when="present")
                    continue
                if not (0 <= s < e_ <= m["extent"]):
                    bad("C06.request_range", f"segment request ({s},{e_}) is empty, inverted or outside the known extent {m['extent']}", kind="range")
                elif overlaps((s, e_), stored_pre):
                    bad("C06.request_stored", f"segment request ({s},{e_}) covers bytes that were already stored before the call ({stored_pre})")
                if not (n["scope"][0] <= s and e_ <= n["scope"][1]):
                    bad("C06.scope", f"segment request ({s},{e_}) outside the scope {n['scope']} of its NAK PDU")
            if n["plen"] > mpl:
                bad("C06.packet_len", f"NAK PDU with {len(reqs)} requests has length {n['plen']} > max_packet_len {mpl}", nreqs=len(reqs),
                    deferred=pre["eof"] is not None)
            if n["packed"] != n["plen"]:
                bad("C06.packed_len", f"NAK PDU packet_len {n['plen']} but pack() gives {n['packed']}")
        # deferred procedure: any NAK issuance after the EOF (no error) asks exactly for what is missing
        if m["eof"] is not None and pre["eof"] is not None:
            missing_post = merge(subtract(m["eof"], stored))
            missing_pre = merge(subtract(m["eof"], stored_pre))
            if naks:
                got = merge([r for r in allreqs if r != (0, 0)])
                if got != missing_post and got != missing_pre:
                    bad("C06.deferred_union", f"deferred NAK sequence requests {sorted(allreqs)} but the missing bytes of [0,{m['eof']}) are {missing_pre} before / {missing_post} after the call",
                        got_more=bool(subtract_sets(got, missing_pre)), got_less=bool(subtract_sets(missing_post, got)))
                has00 = (0, 0) in allreqs
                if has00 and not md_missing_before or not has00 and md_missing_after:
                    bad("C06.deferred_metadata", f"deferred NAK sequence {'contains' if has00 else 'lacks'} the metadata request while metadata is {'missing' if md_missing_after else 'present'}",
                        has=has00)
            # first call after the EOF: issuance is due (the EOF ACK has been retrieved)
            if pre["eof_calls"] == 0 and (missing_post or md_missing_after) and not naks and not self.emitted(out, "FIN") and not e:
                bad("C06.no_nak", f"first call after the EOF: bytes {missing_post} / metadata missing but no NAK was issued")
            if pre["eof_calls"] == 0 and not missing_pre and not md_missing_before:
                if naks:
                    bad("C06.spurious_nak", "nothing is missing after the EOF but a NAK was sent")
                if not self.emitted(out, "FIN"):
                    bad("C06.no_completion", f"nothing is missing after the EOF but the next call did not complete the transfer (emitted {[d['T'] for d in self.emitted(out)]})")
        return v


def subtract_sets(a, b):
    """bytes in a (interval list) not in b"""
    sa = set()
    for s, e in a:
        sa.update(range(s, e))
    for s, e in b:
        sa.difference_update(range(s, e))
    return sa


def configs(tier):
    out = []
    L = 2
    sizes = (3, 4, 5) if tier == "quick" else (2, 3, 4, 5, 6, 7)
    for nak, size, mpl in itertools.product(("imm", "def"), sizes, (512, 35, 27)):
        if tier == "quick" and size == 5 and (nak, mpl) not in (("imm", 27), ("def", 35)):
            continue
        if tier == "quick" and size == 4 and (nak, mpl) not in (("imm", 512), ("def", 27)):  # exact multiple of the segment length
            continue
        rep = 2 if size <= 5 else 1
        out.append(dict(mode="ack", nak=nak, size=size, seg=L, mpl=mpl, closure=False, rep=rep, nak_limit=3, ack_limit=2))
    # unbounded file: the Metadata PDU announces size 0, the EOF PDU tells the real size
    for nak in ("imm", "def"):
        out.append(dict(mode="ack", nak=nak, size=3, seg=L, mpl=512, closure=False, rep=2, nak_limit=3, ack_limit=2, md_size=0))
    # the sender's PDUs carry the large-file flag (64 bit offsets / sizes): a NAK PDU with one request is 43 bytes, with two 59
    for nak, mpl in itertools.product(("imm", "def"), (43, 59) if tier == "quick" else (43, 59, 512)):
        out.append(dict(mode="ack", nak=nak, size=3, seg=L, mpl=mpl, closure=False, rep=2, nak_limit=3, ack_limit=2, large_pdus=True))
    return out


def run(tier: str) -> int:
    run_ = Run(P, tier, assumptions=[
        "stored bytes = union of the File Data PDUs accepted (File-Segment-Recv indication, no exception) after the Metadata was accepted",
        "extent known so far = max(end of any File Data PDU seen, EOF file size)",
        "alphabet: the grid segments of the file, Metadata, EOF (no error), tick, NAK-timer expiry; each PDU at most twice",
    ])
    cfgs = configs(tier)
    run_.bounds = {"segment_len": 2, "sizes": sorted({c["size"] for c in cfgs}), "max_packet_len": [512, 35, 27],
                   "repetitions_per_pdu": 2, "nak_modes": ["imm", "def"]}
    worlds = [C06World(**kw) for kw in cfgs]
    kw = dict(check_cycles=False, validate_stride=2999, validate_terminals=10, n_samples=1, max_states=2_000_000, max_wall=(600 if tier == 'quick' else None))
    small = [w for w in worlds if w.c["size"] <= 4]
    big = [w for w in worlds if w.c["size"] > 4]
    run_.add_all(explore_many(small, procs=NPROC, **kw))
    for w in big:
        if run_.found_something():
            run_.skip(w)  # verdict already decided; a defect can make the remaining graphs unboundedly large
            continue
        run_.add(explore(w, procs=NPROC, **kw))
    return run_.finish(rule="complete reachable graph per configuration: every order / loss / duplication (<=2 copies) of Metadata, segments and EOF interleaved with ticks and timer expiries, until completion")
