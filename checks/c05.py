"""C05 - the destination file equals the write-model of the accepted File Data PDUs (DESIGN.md 4, C05).

World DST + a reference write model (zero-filled growable buffer per resolved path)."""
from __future__ import annotations

import itertools
import os

from env import core
from env.dst import SENTINELS, DstWorld
from xmc import NPROC, sandbox
from xmc.engine import Violation, explore, explore_many
from xmc.report import Run

P = "C05"
ACCEPT_STEPS = ("RECEIVING_FILE_DATA", "RECV_FILE_DATA_WITH_CHECK_LIMIT_HANDLING", "WAITING_FOR_MISSING_DATA")

ALPHABET = (
    ("md",), ("tick",),
    ("fd", 0, 2, 0), ("fd", 2, 2, 0), ("fd", 0, 1, 1), ("fd", 1, 2, 2), ("fd", 3, 1, 0), ("fd", 6, 1, 3), ("fd", 2, 0, 0),
    ("eof", 4, "NO_ERROR", 1), ("eof", 0, "NO_ERROR", 1), ("eof", 2, "CANCEL_REQUEST_RECEIVED", 1),
    ("ackfin",), ("expire",), ("cancel", "right"), ("newtx",),
)


class C05World(DstWorld):
    prop = P
    name = "DST-C05"
    default_alphabet = ALPHABET

    def init_model(self, st):
        files = {}
        if self.c["shape"] == "existing":
            files[core.DST_FILE] = (b"\xee" * (self.c["size"] + 3)).hex()
        elif self.c["shape"] == "dir_existing":
            files[core.dest_path_resolved(self.c)] = (b"\xdd" * (self.c["size"] + 3)).hex()
        st.m = {"files": files, "cur": None}

    def update_model(self, st, ev, out):
        m = st.m
        files = dict(m["files"])
        cur = m["cur"]
        mds = self.inds(out, "metadata_recv")
        if mds:
            r = mds[0]
            if r["dname"] is not None and r["sname"] is not None:
                dn = r["dname"]
                resolved = os.path.join(dn, os.path.basename(r["sname"])) if self.c["shape"] in ("dir", "dir_existing") and dn == core.DST_DIR else dn
                files[resolved] = ""
                cur = resolved
            else:
                cur = None
        if ev[0] == "fd" and not self.exc(out) and self.inds(out, "file_segment_recv"):
            out["accepted"] = True
            if cur is not None and files.get(cur) is not None:
                data = self.fd_bytes(st, ev[1], ev[2], ev[3])
                if data:
                    buf = bytearray(bytes.fromhex(files[cur]))
                    if len(buf) < ev[1]:
                        buf.extend(bytes(ev[1] - len(buf)))
                    buf[ev[1]:ev[1] + len(data)] = data
                    files[cur] = bytes(buf).hex()
        fins = self.inds(out, "finished")
        if fins and cur is not None and self.c["disposition"] and fins[0]["cond"] != "NO_ERROR" and fins[0]["deliv"] == "DATA_INCOMPLETE":
            # permitted deletion of the resolved path (judged exactly by C12): the model follows the filestore
            if not os.path.exists(cur):
                files.pop(cur, None)
        st.m = {"files": files, "cur": cur}

    def check(self, st, ev, out):
        v = []
        actual = {p: c for p, k, c in sandbox.tree() if k == "f"}
        files = st.m["files"]

        def bad(clause, msg, **d):
            v.append(Violation(P, clause, f"after {ev} (step {out['pre_step']} -> {out['post_step']}): {msg}", ev=ev[0], mode=self.c["mode"], **d))

        for p, want in SENTINELS.items():
            w = st.src if want is None else want
            if actual.get(p) != w:
                bad("C05.foreign_path_touched", f"{p} (not the destination path) changed to {actual.get(p)!r}", path=p)
        for p, c in actual.items():
            if p in SENTINELS:
                continue
            if p not in files:
                bad("C05.stray_path", f"file {p} = {c.hex()} exists but no accepted Metadata named it (model files: {sorted(files)})",
                    before_md=st.m["cur"] is None)
            elif c.hex() != files[p]:
                bad("C05.content", f"{p} = {c.hex()} but the write model says {files[p]}", step=out["pre_step"])
        for p in files:
            if p not in actual:
                bad("C05.missing", f"{p} disappeared (model content {files[p]})", step=out["pre_step"])
        into_missing = out["pre_step"] == "SENDING_EOF_ACK_PDU" and out["post_step"] == "WAITING_FOR_MISSING_DATA" and st.m["cur"] is not None
        e = self.exc(out)
        tid = st.D.h.transaction_id
        foreign = bool(e) and e["exc"] == "InvalidTransactionSeqNum" and tid is not None and tid.seq_num.value != st.seq
        # (after 'newtx' the PDUs carry the next sequence number: a handler still busy with the previous transaction refuses them)
        if ev[0] == "fd" and (out["pre_step"] in ACCEPT_STEPS or into_missing) and not out.get("accepted") and not foreign:
            bad("C05.fd_not_accepted", f"File Data PDU offered in step {out['pre_step']} was not accepted ({e})", step=out["pre_step"],
                exc=None if not e else e["exc"], site=None if not e else e["site"])
        return v


def configs(tier):
    out = []
    for mode, shape in itertools.product(("unack", "ack"), ("new", "existing", "dir", "dir_existing")):
        for nak in (("imm", "def") if mode == "ack" else ("imm",)):
            for disp in ((False, True) if shape == "new" else (False,)):
                out.append(dict(mode=mode, closure=True, shape=shape, nak=nak, size=4, seg=2, disposition=disp, check_limit=2,
                                ack_limit=2, nak_limit=2, max_tx=1))
    # the sender's PDUs carry the large-file flag (64 bit offsets in File Data, 64 bit sizes in Metadata / EOF)
    out.append(dict(mode="ack", closure=True, shape="new", nak="imm", size=4, seg=2, check_limit=2, ack_limit=2, nak_limit=2, max_tx=1, large_pdus=True))
    return out


def run(tier: str) -> int:
    run_ = Run(P, tier, assumptions=[
        "a File Data PDU counts as accepted iff the call did not raise and a File-Segment-Recv indication was delivered for it; Metadata counts as accepted iff a Metadata-Recv indication was delivered",
        "deleting the resolved destination path is permitted only with disposition-on-cancellation configured and a non-successful Transaction-Finished reporting an incomplete delivery in the same call (the exact condition is C12's subject)",
    ])
    depth = 5 if tier == "quick" else 7
    cfgs = configs(tier)
    run_.bounds = {"depth": depth, "alphabet": [list(e) for e in ALPHABET], "configs": len(cfgs), "segment_len": 2, "file_size": 4}
    worlds = [C05World(**kw) for kw in cfgs]
    kw = dict(check_cycles=False, max_depth=depth, validate_stride=1999, validate_terminals=5, n_samples=1, max_states=1_500_000, max_wall=(600 if tier == 'quick' else None))
    if tier == "quick":
        results = explore_many(worlds, procs=NPROC, **kw)
    else:
        results = [explore(w, procs=NPROC, **kw) for w in worlds]
    run_.add_all(results)
    run_.cap_hit = False
    run_.extra["depth_bound"] = depth
    return run_.finish(exhaustive=True, rule=f"all event sequences of length <= {depth} over the alphabet from the idle handler, deduplicated by canonical state (handler + sandbox + model)")
