"""C08 - retransmissions deliver exactly the requested data and nothing else (DESIGN.md 4, C08).

World SRC (acknowledged mode): NAK PDUs with 1-2 segment requests over a set of interesting offsets
are injected at every reachable step (at most ``naks`` per run), interleaved with ticks, ACK(EOF)
and Finished.  The outputs of NAK calls are judged against the request; the outputs of all other
calls against the NAK-free stream oracle of C07 (differential: resumption exactly where it was)."""
from __future__ import annotations

import itertools

from checks.c07 import C07World, eff_seg
from xmc import NPROC
from xmc.engine import Violation, explore
from xmc.report import Run

P = "C08"
HUGE = 2 ** 32 - 1
SERVICE_STEPS = ("SENDING_METADATA", "SENDING_FILE_DATA", "RETRANSMITTING", "WAITING_FOR_EOF_ACK", "WAITING_FOR_FINISHED")


def nak_alphabet(size, seg):
    offs = sorted({0, seg, max(size - 1, 0), size, size + 1, HUGE})
    evs = []
    for s, e in itertools.product(offs, offs):
        evs.append(("nak", ((s, e),)))
    evs += [("nak", ((0, 0), (0, seg))), ("nak", ((0, seg), (seg, min(2 * seg, size)))), ("nak", ((seg, min(2 * seg, size)), (0, seg))),
            ("nak", ((0, seg), (size, size + 3))), ("nak", ((size + 1, size + 2), (0, seg))), ("nak", ((0, 1), (1, seg + 1)))]
    seen, out = set(), []
    for e in evs:
        if e not in seen:
            seen.add(e)
            out.append(e)
    return out


class C08World(C07World):
    prop = P
    name = "SRC-C08"

    def __init__(self, **cfg):
        super().__init__(**cfg)
        self.naks = nak_alphabet(self.c["size"], eff_seg(self.c))
        self.max_naks = cfg.get("naks", 2)

    def init_model(self, st):
        st.m = {"stream": [], "covered": 0, "naks": 0, "md": None, "tx": 0}

    def enabled(self, st):
        evs = super().enabled(st)
        if self.idle(st) and st.m["stream"] and st.nput < self.cfg.get("max_tx", 1):
            evs = evs + [("put", "valid")]  # the next transaction on the same handler: its retransmissions are its own
        if st.m["naks"] < self.max_naks and st.S.h.states.step.name in SERVICE_STEPS:
            evs = evs + self.naks
        return evs

    def update_model(self, st, ev, out):
        m = dict(st.m)
        if ev[0] == "put":
            if out.get("ret") is True:
                m = {"stream": [], "covered": 0, "naks": 0, "md": None, "tx": m["tx"] + 1}
            out["pre_stream"], out["pre_covered"], out["pre_md"], out["tx"] = [], 0, None, m["tx"]
            st.m = m
            return
        out["tx"] = m["tx"]
        out["pre_stream"] = list(m["stream"])
        out["pre_covered"] = m["covered"]
        out["pre_md"] = m["md"]
        stream = list(m["stream"])
        emitted = self.emitted(out)
        if ev[0] == "nak":
            m["naks"] += 1
            # an EOF emitted at the head of a NAK call belongs to the original stream
            orig = []
            if emitted and emitted[0]["T"] == "EOF" and "EOF" not in stream:
                orig = [emitted[0]]
            out["n_orig"] = len(orig)
        else:
            orig = emitted
        for d in orig:
            stream.append(d["T"])
            if d["T"] == "FD":
                m["covered"] += len(d["data"]) // 2
            if d["T"] == "MD" and m["md"] is None:
                m["md"] = {k: v for k, v in d.items()}
        m["stream"] = stream
        st.m = m

    def check(self, st, ev, out):
        if ev[0] == "put":
            e = self.exc(out)
            if e or out.get("ret") is not True:
                return [Violation(P, "C08.next_put", f"put request on the idle handler after a finished transaction: {e['exc'] if e else out.get('ret')!r}")]
            return []
        if ev[0] != "nak":
            v = super().check(st, ev, out)
            for x in v:
                x["property"] = P
                x["clause"] = x["clause"].replace("C07.", "C08.resume_")
                x["msg"] = "outputs of non-NAK calls must equal the NAK-free stream: " + x["msg"]
            return v
        v = []
        c = self.c
        seg = eff_seg(c)
        size = len(st.src)
        emitted = self.emitted(out)
        n_orig = out.get("n_orig", 0)
        progress = size if (n_orig or "EOF" in out["pre_stream"]) else out["pre_covered"]
        reqs = [tuple(r) for r in ev[1]]
        e = self.exc(out)

        def bad(clause, msg, **d):
            v.append(Violation(P, clause, f"NAK {reqs} in step {out['pre_step']} (progress {progress}, file size {size}): {msg}", **d))

        # C07 oracle for the leading original EOF (if any)
        if n_orig:
            sub = dict(out)
            sub["S"] = dict(out["S"], out=emitted[:n_orig])
            sub["S"].pop("exc", None)
            for x in super().check(st, ("tick",), sub):
                x["property"] = P
                x["clause"] = x["clause"].replace("C07.", "C08.resume_")
                v.append(x)
        retx = emitted[n_orig:]
        want_seq = [out.get("tx", 0) + c["seq0"], c["seqw"]]
        for d in retx:
            if d["seq"] != want_seq:
                bad("C08.seq", f"re-sent {d['T']} PDU carries sequence number {d['seq']}, the running transaction has {want_seq}")
        # never any data outside the file
        for d in retx:
            if d["T"] == "FD":
                ln = len(d["data"]) // 2
                if d["off"] + ln > size or (ln == 0):
                    bad("C08.outside_file", f"File Data PDU [{d['off']},{d['off'] + ln}) is empty or outside the file", empty=(ln == 0))
                elif bytes.fromhex(d["data"]) != st.src[d["off"]:d["off"] + ln]:
                    bad("C08.data", f"re-sent File Data at {d['off']} = {d['data']}, file has {st.src[d['off']:d['off'] + ln].hex()}")
                if ln > seg:
                    bad("C08.segment_len", f"re-sent File Data PDU carries {ln} bytes > segment length {seg}")
        valid = all((s, e_) == (0, 0) or (0 <= s <= e_ <= progress) for s, e_ in reqs)
        if not valid:
            if not e or e["exc"] != "InvalidNakPdu":
                bad("C08.invalid_accepted", f"invalid request not rejected with InvalidNakPdu (got {e['exc'] if e else 'no exception'}; emitted {len(retx)} PDUs)",
                    got=e["exc"] if e else None, inverted=any(e_ < s for s, e_ in reqs))
            return v
        if e:
            bad("C08.valid_rejected", f"valid NAK raised {e['exc']} ({e['msg']})", exc=e["exc"])
            return v
        # exact retransmission, request by request, in order
        i = 0
        for s, e_ in reqs:
            if (s, e_) == (0, 0):
                if i >= len(retx) or retx[i]["T"] != "MD":
                    bad("C08.metadata", f"(0,0) request not answered with the Metadata PDU (got {[d['T'] for d in retx[i:i + 1]]})")
                    return v
                if out["pre_md"] is not None and {k: retx[i][k] for k in retx[i]} != out["pre_md"]:
                    bad("C08.metadata", "re-sent Metadata PDU differs from the original one")
                i += 1
                continue
            pos = s
            while pos < e_:
                if i >= len(retx) or retx[i]["T"] != "FD":
                    bad("C08.tiling", f"request ({s},{e_}) not covered: stopped at {pos} (next PDU {[d['T'] for d in retx[i:i + 1]]})", kind="short")
                    return v
                d = retx[i]
                ln = len(d["data"]) // 2
                if d["off"] != pos or ln == 0 or pos + ln > e_:
                    bad("C08.tiling", f"request ({s},{e_}): expected a File Data PDU at {pos} within the range, got [{d['off']},{d['off'] + ln})", kind="misplaced")
                    return v
                pos += ln
                i += 1
        if i != len(retx):
            bad("C08.extra", f"{len(retx) - i} PDUs beyond the requested data: {[(d['T'], d.get('off')) for d in retx[i:]]}")
        return v

    def terminal_check(self, st):
        v = super().terminal_check(st)
        for x in v:
            x["property"] = P
            x["clause"] = x["clause"].replace("C07.", "C08.resume_")
        return v


def configs(tier):
    out = []
    for size, seg, closure in ((5, 2, False), (4, 2, True), (1, 2, False), (0, 2, False)) if tier == "quick" else \
            ((5, 2, False), (4, 2, True), (6, 3, False), (7, 3, True), (1, 2, False), (0, 2, False), (3, 1, False)):
        out.append(dict(mode="ack", size=size, seg=seg, closure=closure, naks=2))
    # a put request carrying every kind of Metadata option (filestore request, messages to user): the re-sent Metadata must equal the original
    out.append(dict(mode="ack", size=3, seg=2, closure=False, naks=3, msgs="all", fsreq=True))
    # two consecutive transactions on one handler, NAKs (incl. the Metadata request) in both
    out.append(dict(mode="ack", size=3, seg=2, closure=False, naks=1, max_tx=2))
    # configured segment length larger than what max_packet_len allows (header 10 + offset 4 + 6 data bytes): re-sent segments obey the derived length
    out.append(dict(mode="ack", size=13, seg=20, closure=False, naks=1, mpl=4 + 2 * 2 + 2 + 4 + 6))
    if tier == "thorough":
        # three NAKs per run; PDU CRC flag; wide ids; derived segment length (max_packet_len smaller than the configured segment length allows)
        out.append(dict(mode="ack", size=5, seg=2, closure=False, naks=3))
        out.append(dict(mode="ack", size=4, seg=2, closure=True, naks=3, crc_flag=True))
        out.append(dict(mode="ack", size=7, seg=3, closure=False, naks=2, crc_flag=True, idw_s=2, idw_d=4, seqw=4, mpl=64))
        out.append(dict(mode="ack", size=13, seg=None, closure=False, naks=2, mpl=4 + 2 * 2 + 2 + 4 + 6))  # header 10 + offset 4 + 6 data bytes = the EOF PDU length
        out.append(dict(mode="ack", size=9, seg=4, closure=True, naks=2, cks="mod"))
    return out


def run(tier: str) -> int:
    run_ = Run(P, tier, assumptions=[
        "'data sent so far' = bytes of original File Data PDUs emitted before the NAK call (the whole file once the EOF was emitted)",
        "a request (s,e) is valid iff it is (0,0) or 0 <= s <= e <= data sent so far; an EOF emitted at the head of a NAK call is part of the original stream",
        "NAKs are injected in the steps in which the sender services them (after the Metadata was emitted until the Finished PDU arrives)",
    ])
    cfgs = configs(tier)
    run_.bounds = {"naks_per_run": 2, "configs": cfgs, "offsets": "0, seg, size-1, size, size+1, 2^32-1 (all pairs) + 2-request NAKs"}
    for kw in cfgs:
        w = C08World(**kw)
        run_.add(explore(w, procs=NPROC, cycle_clause=(P, "C08.cycle"), validate_stride=1499, validate_terminals=5, n_samples=1, max_states=2_000_000))
    return run_.finish(rule="complete reachable graph per configuration: every NAK of the alphabet at every servicing step, up to 2 NAKs per run, all interleavings with ticks / ACK(EOF) / Finished")
