"""C14 - declared faults take the effect configured in the fault-handler table (DESIGN.md 4, C14).

Worlds SRC and DST driven by the scenario alphabets that trigger each declarable condition, each
explored completely under every assignment of {ignore, cancel, abandon} to the triggered condition."""
from __future__ import annotations

import itertools

from spacepackets.cfdp import ConditionCode, FaultHandlerCode

from env import core
from env.dst import DstWorld
from env.src import SrcWorld
from xmc import NPROC, clock
from xmc.engine import Violation, World, explore, explore_many
from xmc.report import Run

P = "C14"
DEFAULT_TABLE = {
    "CANCEL_REQUEST_RECEIVED": "cancel", "POSITIVE_ACK_LIMIT_REACHED": "cancel", "KEEP_ALIVE_LIMIT_REACHED": "cancel",
    "INVALID_TRANSMISSION_MODE": "cancel", "FILE_CHECKSUM_FAILURE": "ignore", "FILE_SIZE_ERROR": "cancel", "FILESTORE_REJECTION": "cancel",
    "NAK_LIMIT_REACHED": "cancel", "INACTIVITY_DETECTED": "cancel", "CHECK_LIMIT_REACHED": "cancel", "UNSUPPORTED_CHECKSUM_TYPE": "ignore",
}


class FaultOracle:
    """Model + judgement shared by both sides.  ``m`` keys: tid, cancelled (cond or None), due, abandoned, done."""

    side = "?"
    ent_key = "?"

    def table(self):
        t = dict(DEFAULT_TABLE)
        t.update(self.cfg.get("faults_s" if self.side == "sender" else "faults_d") or {})
        return t

    def fresh(self):
        return {"tid": None, "cancelled": None, "due": None, "abandoned": False, "done": False, "n": 0}

    def step_model(self, st, ev, out, handler_idle):
        m = dict(st.m)
        pre = dict(st.m)
        out["pre_m"] = pre
        o = out.get(self.ent_key, {})
        v = []
        table = self.table()
        faults = o.get("faults", [])
        inds = o.get("ind", [])
        emitted = o.get("out", [])

        def bad(clause, msg, **d):
            v.append(dict(clause=clause, msg=msg, detail=d))

        for r in inds:
            if r["ind"] in ("transaction", "metadata_recv") and m["tid"] is None:
                m["tid"] = r["tid"]
            if r.get("tid") is None:
                bad("C14.none_tid", f"indication {r['ind']} carries no transaction id", what=r["ind"])
        if m["tid"] is None:
            for d in emitted:
                m["tid"] = [d["src"][0], d["seq"][0]]
                break
        if m["tid"] is None and out.get("pdu") and not o.get("exc"):
            m["tid"] = [out["pdu"]["src"][0], out["pdu"]["seq"][0]]
        per_cond = {}
        for f in faults:
            per_cond[f["cond"]] = per_cond.get(f["cond"], 0) + 1
            if f["tid"] is None:
                bad("C14.none_tid", f"fault callback {f['fault']}({f['cond']}) carries no transaction id", what="callback")
            elif m["tid"] is not None and list(f["tid"]) != list(m["tid"]):
                bad("C14.wrong_tid", f"fault callback carries transaction id {f['tid']}, live transaction is {m['tid']}")
            # "...invoked with the transaction id, the condition and the current progress": the progress the handler held when the call
            # began, or a value the event of this very call sets before the fault is declared (end of a File Data PDU, size of an EOF)
            if "pre_progress" in out and out["pre_progress"] is not None:
                cands = {out["pre_progress"]}
                pd = out.get("pdu") or {}
                if pd.get("T") == "FD":
                    e = pd["off"] + len(pd["data"]) // 2
                    cands |= {e, max(e, out["pre_progress"])}
                elif pd.get("T") == "EOF":
                    cands.add(pd.get("size"))
                if f["progress"] not in cands:
                    bad("C14.progress", f"fault callback {f['fault']}({f['cond']}) reports progress {f['progress']}, the handler's progress is "
                        f"{sorted(x for x in cands if x is not None)}", cond=f["cond"], kind=f["fault"])
            want = table.get(f["cond"])
            in_cancel_exchange = pre["cancelled"] is not None
            # CFDP 4.11.2.3.2: a fault that would cancel an already cancelled transaction abandons it instead (logged through the
            # abandonment callback with the original condition). That is the effect of the handler code 'notice of cancellation' only:
            # with 'ignore' / 'abandon' configured for the limit fault of the exchange, the table decides as everywhere else.
            excused = f["fault"] == "abandon" and in_cancel_exchange and table.get("POSITIVE_ACK_LIMIT_REACHED") == "cancel"
            if f["fault"] != want and not excused:
                bad("C14.wrong_kind", f"condition {f['cond']} is configured as '{want}' but the '{f['fault']}' callback fired", cond=f["cond"], want=want, got=f["fault"])
            eff = f["fault"]
            if eff == "abandon":
                m["abandoned"] = True
                if not handler_idle:
                    bad("C14.abandon_not_idle", f"{f['cond']} -> abandon, but the handler is in step {out['post_step']} when the call returns", cond=f["cond"])
                if any(r["ind"] == "finished" for r in inds):
                    bad("C14.abandon_finished", f"{f['cond']} -> abandon, but a Transaction-Finished indication was issued", cond=f["cond"])
            elif eff == "cancel" and m["cancelled"] is None and not m["abandoned"]:
                m["cancelled"] = f["cond"]
                m["due"] = 3
        if any(f["fault"] == "abandon" for f in faults) and pre["cancelled"] is not None and len(faults) > 1:
            bad("C14.extra_callback", f"a fault during the cancellation exchange must only be logged as abandonment, but callbacks "
                                      f"{[(f['fault'], f['cond']) for f in faults]} fired", kinds=sorted({f["fault"] for f in faults}))
        for cond, n in per_cond.items():
            if n > 1:
                bad("C14.multiplicity", f"{cond} declared {n} times in one call", cond=cond, many=n > 2)
        # effects that must follow a cancellation: condition reported to the user and to the peer
        fins = [r for r in inds if r["ind"] == "finished"]
        if m["cancelled"] is not None and not m["done"]:
            peer = [d for d in emitted if d["T"] == ("EOF" if self.side == "sender" else "FIN")]
            for d in peer:
                if d["cond"] != m["cancelled"] and not m.get("peer_seen"):
                    bad("C14.cancel_peer_condition", f"cancelled with {m['cancelled']} but the {d['T']} PDU carries {d['cond']}", cond=m["cancelled"])
                m["peer_seen"] = True
            if fins:
                if fins[0]["cond"] != m["cancelled"] and self.side == "receiver":
                    bad("C14.cancel_user_condition", f"cancelled with {m['cancelled']} but Transaction-Finished reports {fins[0]['cond']}", cond=m["cancelled"])
                m["done"] = True
                m["due"] = None
            elif m["due"] is not None and ev[0] not in ("advance",) and not faults:
                m["due"] -= 1
                if m["due"] <= 0 and self.side == "receiver":
                    bad("C14.cancel_no_finished", f"cancelled with {m['cancelled']} but no Transaction-Finished indication followed", cond=m["cancelled"])
                    m["due"] = None
        if pre["abandoned"]:
            if emitted or fins:
                bad("C14.after_abandon", f"after the transaction was abandoned: emitted {[d['T'] for d in emitted]}, Transaction-Finished: {bool(fins)}")
        # ignore: nothing attributable - the transaction is still alive after the call
        for f in faults:
            if f["fault"] == "ignore" and table.get(f["cond"]) == "ignore" and pre["cancelled"] is None and m["cancelled"] is None and not m["abandoned"]:
                if handler_idle and not fins:
                    bad("C14.ignore_dropped", f"{f['cond']} -> ignore, but the transaction vanished (handler idle, no Transaction-Finished)", cond=f["cond"])
                if fins and fins[0]["cond"] == f["cond"]:
                    bad("C14.ignore_cancelled", f"{f['cond']} -> ignore, but the transaction was finished with that condition", cond=f["cond"])
        if handler_idle and m["tid"] is not None:
            m["done"] = True
        m["n"] = min(m["n"] + 1, 1)
        out["viol"] = v
        st.m = m

    def verdicts(self, st, ev, out):
        vs = [Violation(P, x["clause"], f"{self.side} {ev} ({out['pre_step']} -> {out['post_step']}): {x['msg']}", side=self.side,
                        scenario=self.cfg.get("scenario"), **x["detail"]) for x in out.get("viol", [])]
        e = out.get(self.ent_key, {}).get("exc")
        if e and not e["protocol"]:
            vs.append(Violation(P, "C14.exception", f"{self.side} {ev} ({out['pre_step']} -> {out['post_step']}): {e['exc']} in {e['site']}: {e['msg']}",
                                side=self.side, exc=e["exc"], site=e["site"], scenario=self.cfg.get("scenario")))
        return vs


class C14Src(SrcWorld, FaultOracle):
    prop = P
    name = "SRC-C14"
    side = "sender"
    ent_key = "S"

    def init_model(self, st):
        st.m = self.fresh()
        st.m["calls"] = 0

    def enabled(self, st):
        if st.m["calls"] >= self.cfg.get("max_calls", 14):
            return []
        evs = [("tick",)]
        if self.idle(st) and st.m["tid"] is not None and st.nput < self.cfg.get("max_tx", 1):
            evs.append(("put", "valid"))  # a further transaction on the same handler
        if self.cfg.get("user_cancel") and st.S.h.state.name == "BUSY" and st.m["tid"] is not None and not st.m.get("ucancel"):
            evs.append(("cancel", "right"))
        step = st.S.h.states.step.name
        if step == "WAITING_FOR_EOF_ACK":
            evs.append(("ackeof",))
        if step == "WAITING_FOR_FINISHED":
            evs.append(("fin", "NO_ERROR", "DATA_COMPLETE", "FILE_RETAINED"))
        if clock.next_expiry(st.S.h) is not None:
            evs += [("expire",)]
        return evs

    def update_model(self, st, ev, out):
        calls = st.m.get("calls", 0)
        if ev[0] == "put" and out.get("ret") is True:
            st.m = self.fresh()  # per-transaction model
            out["pre_m"] = dict(st.m)
            out["viol"] = []
        elif ev[0] == "cancel":
            # Cancel.request is not a fault declaration (C12 judges it); the model notes that the EOF (cancel)
            # exchange is running so that a fault during it is expected to abandon
            ucancel = out.get("ret") is True
            self.step_model(st, ev, out, self.idle(st))
            if ucancel:
                st.m["ucancel"] = True
                if st.m["cancelled"] is None:
                    st.m["cancelled"] = "CANCEL_REQUEST_RECEIVED"
                    st.m["due"] = None
        else:
            self.step_model(st, ev, out, self.idle(st))
        st.m["calls"] = calls + 1

    def check(self, st, ev, out):
        return self.verdicts(st, ev, out)

    def quiet(self, obs):
        return False


class C14Dst(DstWorld, FaultOracle):
    prop = P
    name = "DST-C14"
    side = "receiver"
    ent_key = "D"

    def init_model(self, st):
        st.m = self.fresh()
        st.m["calls"] = 0
        st.m["sent"] = []

    def enabled(self, st):
        if st.m["calls"] >= self.cfg.get("max_calls", 9):
            return []
        evs = []
        ended = st.m["abandoned"] or (st.m["done"] and self.idle(st))
        for e in super().enabled(st):
            if e[0] in ("md", "fd", "eof") and repr(e) in st.m["sent"]:
                continue
            if ended and e[0] not in ("tick", "expire"):
                continue  # PDUs of a closed transaction are the entity shell's business, not the handler's
            evs.append(e)
        return evs

    def update_model(self, st, ev, out):
        calls = st.m.get("calls", 0)
        sent = list(st.m.get("sent", []))
        if ev[0] in ("md", "fd", "eof"):
            sent.append(repr(ev))
        self.step_model(st, ev, out, self.idle(st))
        # a cancellation that is not a fault declaration (Cancel.request, EOF (cancel) from the sender): the Finished (cancel) exchange runs
        o = out.get("D", {})
        if st.m["cancelled"] is None and not o.get("exc") and not st.m["done"]:
            if ev[0] == "cancel" and out.get("ret") is True:
                st.m["cancelled"] = "CANCEL_REQUEST_RECEIVED"
                st.m["due"] = None
            elif ev[0] == "eof" and ev[2] != "NO_ERROR" and st.D.h.state.name == "BUSY":
                st.m["cancelled"] = ev[2]
                st.m["due"] = None
        st.m["calls"] = calls + 1
        st.m["sent"] = sent

    def check(self, st, ev, out):
        return self.verdicts(st, ev, out)

    def quiet(self, obs):
        return False


class SetHandlerWorld(World):
    """Complete enumeration of DefaultFaultHandlerBase.set_handler / get_fault_handler."""

    prop = P
    name = "FH-TABLE"
    uses_sandbox = False

    def build(self):
        return [core.RecFaults(), core.RecFaults()]  # two entities' tables in one process

    def enabled(self, st):
        return [("set", c.name, h.name) for c in ConditionCode for h in FaultHandlerCode]

    def apply(self, st, ev):
        out = {}
        try:
            st[0].set_handler(ConditionCode[ev[1]], FaultHandlerCode[ev[2]])
            out["got"] = st[0].get_fault_handler(ConditionCode[ev[1]]).name
        except Exception as ex:  # noqa: BLE001
            out["exc"] = type(ex).__name__
        # the other entity's table and a table created afterwards still hold the documented defaults
        inv = {v: k for k, v in core.FH.items()}
        for label, other in (("sibling", st[1]), ("fresh", core.RecFaults())):
            tab = {c: inv[other.get_fault_handler(ConditionCode[c])] for c in DEFAULT_TABLE}
            diff = {c: v for c, v in tab.items() if v != DEFAULT_TABLE[c]}
            if diff:
                out["leak_" + label] = diff
        return out

    def quiet(self, obs):
        return True

    def check(self, st, ev, obs):
        for label in ("sibling", "fresh"):
            if "leak_" + label in obs:
                return [Violation(P, "C14.table_shared", f"set_handler({ev[1]}, {ev[2]}) on one fault handler object changed the table of a {label} one: {obs['leak_' + label]}",
                                  other=label)]
        in_table = ev[1] in DEFAULT_TABLE
        if in_table:
            if obs.get("got") != ev[2]:
                return [Violation(P, "C14.set_handler", f"set_handler({ev[1]}, {ev[2]}) -> {obs}", cond=ev[1])]
        elif obs.get("exc") != "ValueError":
            return [Violation(P, "C14.set_handler_outside_table", f"set_handler({ev[1]}, {ev[2]}) for a condition outside the table -> {obs}", cond=ev[1])]
        return []


CODES = ("ignore", "cancel", "abandon")


def configs(tier):
    worlds = []
    # --- sender -----------------------------------------------------------------------------
    for code in CODES:
        worlds.append(C14Src(scenario="src_ack_limit", mode="ack", size=3, seg=2, ack_limit=1, faults_s={"POSITIVE_ACK_LIMIT_REACHED": code}, max_calls=10))
        worlds.append(C14Src(scenario="src_check_limit", mode="unack", closure=True, size=3, seg=2, faults_s={"CHECK_LIMIT_REACHED": code}, max_calls=9))
    # two transactions on one handler: the first ends by a user cancel or by the fault, the second meets the fault
    for code in CODES:
        worlds.append(C14Src(scenario="src_ack_limit_second_tx", mode="ack", size=3, seg=2, ack_limit=1, faults_s={"POSITIVE_ACK_LIMIT_REACHED": code},
                             max_calls=16, max_tx=2, user_cancel=True))
        worlds.append(C14Src(scenario="src_check_limit_second_tx", mode="unack", closure=True, size=3, seg=2, faults_s={"CHECK_LIMIT_REACHED": code},
                             max_calls=14, max_tx=2, user_cancel=True))
    # --- receiver ---------------------------------------------------------------------------
    size = 3
    full = [("md",), ("fd", 0, 2, 0), ("fd", 2, 1, 0), ("eof", size, "NO_ERROR", 1), ("tick",), ("expire",)]
    for code in CODES:
        for nak in ("imm", "def"):
            worlds.append(C14Dst(scenario="dst_ack_limit", mode="ack", nak=nak, size=size, seg=2, ack_limit=1, nak_limit=2,
                                 faults_d={"POSITIVE_ACK_LIMIT_REACHED": code}, alphabet=full + [("ackfin",)], max_calls=9))
            worlds.append(C14Dst(scenario="dst_nak_limit", mode="ack", nak=nak, size=size, seg=2, ack_limit=2, nak_limit=1,
                                 faults_d={"NAK_LIMIT_REACHED": code}, alphabet=[e for e in full if e != ("fd", 2, 1, 0)] + [("ackfin",)], max_calls=9))
        # the Finished (cancel) PDU of a transaction cancelled by the sender's EOF (cancel) or by the local user is never acknowledged
        for al in (1, 2):
            worlds.append(C14Dst(scenario="dst_ack_limit_cancelled", mode="ack", nak="imm", size=size, seg=2, ack_limit=al, nak_limit=2,
                                 faults_d={"POSITIVE_ACK_LIMIT_REACHED": code},
                                 alphabet=[("md",), ("fd", 0, 2, 0), ("eof", 2, "CANCEL_REQUEST_RECEIVED", 1), ("cancel", "right"), ("tick",), ("expire",), ("ackfin",)],
                                 max_calls=8 + al))
        for closure in (False, True):
            worlds.append(C14Dst(scenario="dst_check_limit", mode="unack", closure=closure, size=size, seg=2, check_limit=1,
                                 faults_d={"CHECK_LIMIT_REACHED": code}, alphabet=[e for e in full if e != ("fd", 2, 1, 0)], max_calls=7))
            worlds.append(C14Dst(scenario="dst_checksum_unack", mode="unack", closure=closure, size=size, seg=2, check_limit=2,
                                 faults_d={"FILE_CHECKSUM_FAILURE": code},
                                 alphabet=[("md",), ("fd", 0, 2, 0), ("fd", 2, 1, 0), ("eof", size, "NO_ERROR", 0), ("eof", size, "NO_ERROR", 1), ("tick",), ("expire",)], max_calls=7))
            worlds.append(C14Dst(scenario="dst_size_error_unack", mode="unack", closure=closure, size=size, seg=2, check_limit=2,
                                 faults_d={"FILE_SIZE_ERROR": code},
                                 alphabet=[("md",), ("fd", 0, 2, 0), ("fd", 2, 3, 0), ("eof", size, "NO_ERROR", 1), ("eof", 1, "NO_ERROR", 1), ("tick",), ("expire",)], max_calls=7))
            worlds.append(C14Dst(scenario="dst_filestore_rejection", mode="unack", closure=closure, size=size, seg=2,
                                 faults_d={"FILESTORE_REJECTION": code},
                                 alphabet=[("md",), ("fd", 0, 2, 0), ("fd", 2, 1, 0), ("eof", size, "NO_ERROR", 1), ("tick",), ("reject",), ("reject_create",)], max_calls=7))
        # the destination file cannot be created at all (its directory does not exist): the filestore answers with a refusal code
        for mode in ("unack", "ack"):
            worlds.append(C14Dst(scenario="dst_filestore_rejection_nodir", mode=mode, nak="imm", closure=True, size=size, seg=2, shape="nodir", ack_limit=2, nak_limit=2,
                                 faults_d={"FILESTORE_REJECTION": code},
                                 alphabet=[("md",), ("fd", 0, 2, 0), ("fd", 2, 1, 0), ("eof", size, "NO_ERROR", 1), ("tick",), ("ackfin",)], max_calls=7))
        # disposition on cancellation with nothing to delete: the file was never created (missing directory), or the Metadata never arrived
        worlds.append(C14Dst(scenario="dst_filestore_rejection_nodir_disposition", mode="unack", closure=True, size=size, seg=2, shape="nodir", disposition=True,
                             faults_d={"FILESTORE_REJECTION": code},
                             alphabet=[("md",), ("fd", 0, 2, 0), ("fd", 2, 1, 0), ("eof", size, "NO_ERROR", 1), ("tick",)], max_calls=6))
        worlds.append(C14Dst(scenario="dst_nak_limit_no_metadata_disposition", mode="ack", nak="imm", size=size, seg=2, ack_limit=2, nak_limit=1, disposition=True,
                             faults_d={"NAK_LIMIT_REACHED": code},
                             alphabet=[("fd", 0, 2, 0), ("eof", size, "NO_ERROR", 1), ("tick",), ("expire",), ("ackfin",)], max_calls=9))
        # ... or because the resolved path is a directory (destination directory holding a directory with the source's base name)
        worlds.append(C14Dst(scenario="dst_filestore_rejection_dir_dir", mode="unack", closure=True, size=size, seg=2, shape="dir_dir", check_limit=1,
                             faults_d={"FILESTORE_REJECTION": code},
                             alphabet=[("md",), ("fd", 0, 2, 0), ("fd", 2, 1, 0), ("eof", size, "NO_ERROR", 1), ("tick",), ("expire",)], max_calls=7))
        worlds.append(C14Dst(scenario="dst_checksum_ack", mode="ack", nak="imm", size=size, seg=2, ack_limit=2, nak_limit=2,
                             faults_d={"FILE_CHECKSUM_FAILURE": code},
                             alphabet=[("md",), ("fd", 0, 2, 0), ("fd", 2, 1, 0), ("eof", size, "NO_ERROR", 0), ("tick",), ("ackfin",), ("expire",)], max_calls=9))
        worlds.append(C14Dst(scenario="dst_size_error_ack", mode="ack", nak="imm", size=size, seg=2, ack_limit=2, nak_limit=2,
                             faults_d={"FILE_SIZE_ERROR": code},
                             alphabet=[("md",), ("fd", 0, 2, 0), ("fd", 2, 3, 0), ("eof", size, "NO_ERROR", 1), ("eof", 1, "NO_ERROR", 1), ("tick",), ("ackfin",)], max_calls=8))
        worlds.append(C14Dst(scenario="dst_filestore_rejection_ack", mode="ack", nak="imm", size=size, seg=2,
                             faults_d={"FILESTORE_REJECTION": code},
                             alphabet=[("md",), ("fd", 0, 2, 0), ("fd", 2, 1, 0), ("eof", size, "NO_ERROR", 1), ("tick",), ("reject",), ("reject_create",), ("ackfin",)], max_calls=8))
    return worlds


def run(tier: str) -> int:
    run_ = Run(P, tier, assumptions=[
        "a fault declared during the cancellation exchange (EOF (cancel) / Finished (cancel) awaiting its ACK) is abandoned by design and not judged against the table",
        "Cancel.request is not a fault declaration in this code base (judged by C12)",
        "the multiplicity clause (one detection -> one callback per call) is separate from the kind / effect clauses",
        "NOTICE_OF_SUSPENSION is not implemented by the library (documented TODO) and is not assigned",
    ])
    worlds = configs(tier)
    run_.bounds = {"scenarios": sorted({w.cfg.get("scenario") for w in worlds}), "handler_codes": CODES, "worlds": len(worlds),
                   "calls_per_run": "<= 7..10"}
    kw = dict(check_cycles=False, validate_stride=997, validate_terminals=2, n_samples=1, max_states=600_000)
    run_.add_all(explore_many(worlds, procs=NPROC, **kw))
    run_.add(explore(SetHandlerWorld(), procs=1, check_cycles=False, n_samples=1, max_depth=1))
    run_.cap_hit = False
    return run_.finish(exhaustive=True, rule="per scenario x handler code: all event sequences over the scenario alphabet up to the call bound (each PDU at most once), deduplicated; set_handler enumerated over ConditionCode x FaultHandlerCode")
