"""C12 - cancellation takes effect immediately and is signalled correctly (DESIGN.md 4, C12).

Worlds SRC and DST with Cancel.request (right / wrong transaction id) enabled between any two
calls, and EOF (cancel) PDUs from the sender in the DST world."""
from __future__ import annotations

import itertools
import os

from spacepackets.cfdp import EntityIdTlv
from spacepackets.util import UnsignedByteField

from checks.c07 import eff_seg
from env import core, refcks
from env.dst import DstWorld
from env.src import SrcWorld
from xmc import NPROC
from xmc.engine import Violation, explore, explore_many
from xmc.report import Run

P = "C12"


def floc_hex(value, width) -> str:
    return EntityIdTlv(UnsignedByteField(value, width).as_bytes).pack().hex()


# ------------------------------------------------------------------------------------------------
class C12Src(SrcWorld):
    prop = P
    name = "SRC-C12"

    def init_model(self, st):
        st.m = {"covered": 0, "cancelled": None, "tid": False, "done": False, "ncancel": 0, "by_fault": False, "nnak": 0, "tx": 1}

    def enabled(self, st):
        step = st.S.h.states.step.name
        evs = [("tick",)]
        if st.m["done"] and self.idle(st) and st.m["tx"] < self.cfg.get("max_tx", 1):
            evs.append(("put", "valid"))  # the next transaction on the same handler (whatever way the previous one ended)
        if st.m["ncancel"] < 2:
            evs += [("cancel", "right"), ("cancel", "wrong")]
            if self.cfg.get("max_tx", 1) > 1 and st.m["tx"] < self.cfg["max_tx"] and st.m["tid"] and not st.m["done"] and st.m["cancelled"] is None:
                # the user cancels and at once submits the next put request, before fetching what the cancel request queued
                evs.append(("cancel+put",))
        if self.c["mode"] == "ack" and st.m["nnak"] < 2 and step in ("SENDING_FILE_DATA", "RETRANSMITTING", "WAITING_FOR_EOF_ACK", "WAITING_FOR_FINISHED") \
                and st.m["covered"] > 0:
            evs.append(("nak", ((0, min(st.m["covered"], eff_seg(self.c))),)))  # a valid retransmission request, before or after the cancel
        if step == "WAITING_FOR_EOF_ACK":
            evs.append(("ackeof", "CANCEL_REQUEST_RECEIVED" if st.m["cancelled"] else "NO_ERROR"))
        if step == "WAITING_FOR_FINISHED":
            if st.m["cancelled"]:
                evs.append(("fin", "CANCEL_REQUEST_RECEIVED", "DATA_INCOMPLETE", "FILE_RETAINED"))
            else:
                evs.append(("fin", "NO_ERROR", "DATA_COMPLETE", "FILE_RETAINED"))
        from xmc import clock
        if clock.next_expiry(st.S.h) is not None:
            evs.append(("expire",))
        return evs

    def apply(self, st, ev):
        if ev[0] != "cancel+put":
            return super().apply(st, ev)
        ent = st.S
        out = {"pre_step": ent.h.states.step.name, "pre_state": ent.h.state.name, "timers": [0, 0]}
        ent.autodrain = False
        try:
            o1, _, ret1 = ent.call(ent.h.cancel_request, self.cur_tid(st))
            o2, _, ret2 = ent.call(ent.h.put_request, self.put_req("valid"))
        finally:
            ent.autodrain = True
        msgs = ent.drain()
        obs = dict(o1)
        if "exc" in o2 and "exc" not in obs:
            obs["exc"] = o2["exc"]
        for k in ("ind", "faults"):
            if o1.get(k) or o2.get(k):
                obs[k] = list(o1.get(k, [])) + list(o2.get(k, []))
        if msgs:
            obs["out"] = [m.d for m in msgs]
        out["ret"], out["ret_put"] = ret1, ret2
        out["idle_between"] = ret2 is True
        if obs:
            out["S"] = obs
        out["post_step"] = ent.h.states.step.name
        out["post_state"] = ent.h.state.name
        if ret2 is True:
            st.nput += 1
        self.update_model(st, ev, out)
        return out

    def update_model(self, st, ev, out):
        m = dict(st.m)
        out["pre_m"] = dict(st.m)
        if ev[0] == "cancel+put":
            m["ncancel"] += 1
            if out.get("ret") is True and m["cancelled"] is None:
                eofs = [d for d in self.emitted(out) if d["T"] == "EOF"]
                m["cancelled"] = eofs[0] if eofs else {"T": "none"}
            if out.get("ret_put") is True:
                m = {"covered": 0, "cancelled": None, "tid": False, "done": False, "ncancel": 0, "by_fault": False, "nnak": 0, "tx": m["tx"] + 1}
            st.m = m
            return
        if ev[0] == "put":
            if out.get("ret") is True:
                m = {"covered": 0, "cancelled": None, "tid": False, "done": False, "ncancel": 0, "by_fault": False, "nnak": 0, "tx": m["tx"] + 1}
            st.m = m
            return
        if self.inds(out, "transaction"):
            m["tid"] = True
        emitted = self.emitted(out)
        if ev[0] == "nak":
            m["nnak"] += 1
        if ev[0] == "cancel":
            m["ncancel"] += 1
            if out.get("ret") is True and m["cancelled"] is None:
                eofs = [d for d in emitted if d["T"] == "EOF"]
                m["cancelled"] = eofs[0] if eofs else {"T": "none"}
        elif m["cancelled"] is None:
            for d in emitted:
                if d["T"] == "FD" and ev[0] != "nak":  # File Data emitted by a NAK call is a retransmission
                    m["covered"] += len(d["data"]) // 2
            if any(f["fault"] in ("cancel", "abandon") for f in self.faults(out)):
                # cancelled by a declared fault (e.g. positive ACK limit): not a Cancel.request; C04/C14 judge it
                m["cancelled"] = {"T": "fault"}
                m["by_fault"] = True
        if self.inds(out, "finished") or (self.idle(st) and m["tid"]):
            m["done"] = True
        st.m = m

    def quiet(self, obs):
        return "S" not in obs and obs.get("pre_step") == obs.get("post_step") and "ret" not in obs

    def check(self, st, ev, out):
        v = []
        c = self.c
        pre = out["pre_m"]
        e = self.exc(out)
        emitted = self.emitted(out)

        def bad(clause, msg, **d):
            v.append(Violation(P, clause, f"sender {ev} ({out['pre_state']}/{out['pre_step']} -> {out['post_state']}/{out['post_step']}, "
                                            f"{pre['covered']} bytes sent): {msg}", side="sender", **d))

        if ev[0] == "cancel+put":
            if e:
                bad("C12.cancel_exception", f"cancel request directly followed by a put request raised {e['exc']} in {e['site']}", exc=e["exc"], site=e["site"], md_only=c["md_only"])
                return v
            if out.get("ret") is not True:
                bad("C12.return_value", f"cancel_request(right id) returned {out.get('ret')!r}, expected True", id="right", got=out.get("ret"))
                return v
            if not emitted or emitted[0]["T"] != "EOF":
                bad("C12.no_cancel_eof", f"the next PDU after a successful cancel (followed at once by a put request) is {[d['T'] for d in emitted[:1]] or 'none'}, expected an EOF")
            else:
                self._judge_eof(st, emitted[0], pre["covered"], bad, first=True)
            return v
        if ev[0] == "put":
            if e or out.get("ret") is not True:
                bad("C12.next_put_refused", f"put request on the idle handler after the previous transaction ended: {e['exc'] if e else out.get('ret')!r}")
            return v
        if ev[0] == "cancel":
            active = out["pre_state"] == "BUSY" and pre["tid"] and not pre["done"]
            want = active and ev[1] == "right"
            if e:
                bad("C12.cancel_exception", f"cancel_request raised {e['exc']} in {e['site']}", exc=e["exc"], site=e["site"], md_only=c["md_only"])
                return v
            if out.get("ret") is not want:
                bad("C12.return_value", f"cancel_request({ev[1]} id) returned {out.get('ret')!r}, expected {want!r}", id=ev[1], got=out.get("ret"))
            if want and out.get("ret") is True and pre["cancelled"] is None:
                if not emitted or emitted[0]["T"] != "EOF":
                    bad("C12.no_cancel_eof", f"the next PDU after a successful cancel is {[d['T'] for d in emitted[:1]] or 'none'}, expected an EOF")
                else:
                    self._judge_eof(st, emitted[0], pre["covered"], bad, first=True)
                for d in emitted[1:]:
                    if d["T"] == "FD" and d["off"] + len(d["data"]) // 2 > pre["covered"]:
                        bad("C12.file_data_after_cancel", f"new File Data at {d['off']} emitted after the cancel request")
            if not want and emitted:
                bad("C12.refused_cancel_effect", f"refused cancel request emitted {[d['T'] for d in emitted]}")
            return v
        if e and not e["protocol"]:
            bad("C12.exception", f"{e['exc']} in {e['site']}", exc=e["exc"], site=e["site"])
        if pre["cancelled"] is not None and not pre["by_fault"]:
            for d in emitted:
                if d["T"] == "FD" and d["off"] + len(d["data"]) // 2 > pre["covered"]:
                    bad("C12.file_data_after_cancel", f"new File Data at {d['off']} emitted after the cancel request")
                elif d["T"] == "EOF":
                    self._judge_eof(st, d, pre["covered"], bad, first=False)
        return v

    def _judge_eof(self, st, d, covered, bad, first):
        c = self.c
        which = "EOF after cancel" if first else "re-sent EOF after cancel"
        if d["cond"] != "CANCEL_REQUEST_RECEIVED":
            bad("C12.eof_condition", f"{which} carries condition {d['cond']}", first=first)
        if d["size"] != covered:
            bad("C12.eof_size", f"{which} announces file size {d['size']} but {covered} bytes of file data were sent", first=first)
        want = bytes(4) if c["md_only"] else refcks.REF[c["cks"]](st.src[:covered])
        if d["cks"] != want.hex():
            bad("C12.eof_checksum", f"{which} carries checksum {d['cks']}, the {c['cks']} checksum of the {covered} byte prefix is {want.hex()}",
                first=first, cks=c["cks"])


# ------------------------------------------------------------------------------------------------
class C12Dst(DstWorld):
    prop = P
    name = "DST-C12"

    def __init__(self, **cfg):
        super().__init__(**cfg)
        size, seg = self.c["size"], self.c["seg"]
        self.segs = [("fd", o, min(seg, size - o), 0) for o in range(0, size, seg)]

    def init_model(self, st):
        st.m = {"active": False, "cancel": None, "due": None, "done": False, "eof_seen": False, "sent": [], "ncancel": 0, "fin": None,
                "causes": 0, "md": False}

    def enabled(self, st):
        m = st.m
        if m["done"] and self.idle(st):
            return [("cancel", "right")] if m["ncancel"] < 3 else []
        evs = [("tick",)]
        if not m["active"] and not m["sent"]:
            evs.append(("md",))
        for s in self.segs:
            if repr(s) not in m["sent"]:
                evs.append(s)
        if m["active"] or self.c["mode"] == "ack":
            if not m["eof_seen"]:
                evs.append(("eof", self.c["size"], "NO_ERROR", 1))
                nsent = sum(e[2] for e in self.segs if repr(e) in m["sent"])
                evs.append(("eof", nsent, "CANCEL_REQUEST_RECEIVED", 1))
                evs.append(("eof", nsent, "POSITIVE_ACK_LIMIT_REACHED", 1))
        if m["eof_seen"] and self.c["mode"] == "unack" and st.D.h.states.step.name == "RECV_FILE_DATA_WITH_CHECK_LIMIT_HANDLING" and m["cancel"] is None:
            # the sender cancels after its EOF (no error) while the receiver still waits for late data
            evs.append(("eof", self.c["size"], "CANCEL_REQUEST_RECEIVED", 1))
        if m["eof_seen"] and self.c["mode"] == "ack" and st.D.h.states.step.name in ("WAITING_FOR_MISSING_DATA", "WAITING_FOR_METADATA") and m["cancel"] is None \
                and m["causes"] == 0:
            # the sender's user cancels during the retransmission phase (sender in WAITING_FOR_EOF_ACK / RETRANSMITTING / WAITING_FOR_FINISHED)
            evs.append(("eof", self.c["size"], "CANCEL_REQUEST_RECEIVED", 1))
        if st.D.h.states.step.name == "WAITING_FOR_FINISHED_ACK":
            evs.append(("ackfin",))
        if m["ncancel"] < 2:
            evs += [("cancel", "right"), ("cancel", "wrong")]
        from xmc import clock
        if clock.next_expiry(st.D.h) is not None:
            evs.append(("expire",))
        return evs

    def update_model(self, st, ev, out):
        m = dict(st.m)
        out["pre_m"] = dict(st.m)
        m["sent"] = list(m["sent"])
        if ev[0] in ("md", "fd"):
            m["sent"].append(repr(ev))
        if ev[0] == "md" and self.inds(out, "metadata_recv"):
            m["active"] = True
            m["md"] = True
        if any(f["fault"] in ("cancel", "abandon") for f in out.get("D", {}).get("faults", [])):
            m["causes"] = min(2, m["causes"] + 1)  # cancelled by a declared fault as well: judged by C04 / C14
        if ev[0] in ("fd", "eof") and not self.exc(out) and st.D.h.state.name == "BUSY":
            m["active"] = True
        if ev[0] == "eof" and not self.exc(out):
            if self.inds(out, "eof_recv") or out["pre_step"] in ("RECEIVING_FILE_DATA", "IDLE", "WAITING_FOR_METADATA", "RECV_FILE_DATA_WITH_CHECK_LIMIT_HANDLING",
                                                                   "WAITING_FOR_MISSING_DATA"):
                m["eof_seen"] = True
                if ev[2] != "NO_ERROR" and out["pre_step"] in ("RECEIVING_FILE_DATA", "RECV_FILE_DATA_WITH_CHECK_LIMIT_HANDLING", "IDLE", "WAITING_FOR_METADATA",
                                                                   "WAITING_FOR_MISSING_DATA"):
                    # IDLE / WAITING_FOR_METADATA: acknowledged mode, the Metadata PDU was lost or is late - an EOF (cancel) is one all the same
                    m["causes"] = min(2, m["causes"] + 1)
                    if m["cancel"] is None:
                        m["cancel"] = ["eof", ev[2]]
                        m["due"] = 3
        if ev[0] == "cancel":
            m["ncancel"] += 1
            if out.get("ret") is True:
                m["causes"] = min(2, m["causes"] + 1)
                if m["cancel"] is None:
                    m["cancel"] = ["local", "CANCEL_REQUEST_RECEIVED"]
                    m["due"] = 1
        elif m["due"] is not None and ev[0] not in ("cancel",):
            m["due"] = max(-1, m["due"] - 1)
        fins = self.inds(out, "finished")
        if fins:
            m["done"] = True
            m["due"] = None
            if m["fin"] is None:
                m["fin"] = fins[0]
        if self.idle(st) and m["active"]:
            m["done"] = True
        st.m = m

    def quiet(self, obs):
        return "D" not in obs and obs.get("pre_step") == obs.get("post_step") and "ret" not in obs and "fs" not in obs

    def check(self, st, ev, out):
        v = []
        c = self.c
        pre = out["pre_m"]
        m = st.m
        e = self.exc(out)

        def bad(clause, msg, **d):
            v.append(Violation(P, clause, f"receiver {ev} ({out['pre_step']} -> {out['post_step']}): {msg}", side="receiver", mode=c["mode"], **d))

        if ev[0] == "cancel":
            busy = out["pre_step"] != "IDLE"
            want = busy and ev[1] == "right"
            if e:
                bad("C12.cancel_exception", f"cancel_request raised {e['exc']} in {e['site']}", exc=e["exc"], site=e["site"])
                return v
            if out.get("ret") is not want:
                bad("C12.return_value", f"cancel_request({ev[1]} id) returned {out.get('ret')!r}, expected {want!r}", id=ev[1], got=out.get("ret"))
            return v
        if e and not e["protocol"]:
            bad("C12.exception", f"{e['exc']} in {e['site']}: {e['msg']}", exc=e["exc"], site=e["site"])
            return v
        fins = self.inds(out, "finished")
        finpdus = self.emitted(out, "FIN")
        pf = pre.get("fin")
        if pre["done"] and pf and pf["deliv"] == "DATA_COMPLETE" and pf["cond"] == "NO_ERROR":
            # the delivery was reported complete and successful: whatever happens afterwards (cancel request while the Finished PDU
            # awaits its ACK, positive-ACK limit), the file is not an incomplete one and must not be discarded
            data = core.read_file(self.dest_path)
            if data != st.src:
                bad("C12.complete_file_discarded", f"the file was delivered completely (Transaction-Finished NO_ERROR / DATA_COMPLETE) but is now "
                                                   f"{'absent' if data is None else data.hex()} (disposition {c['disposition']})", disposition=c["disposition"])
        cancel = pre["cancel"] or (m["cancel"] if ev[0] == "eof" else None)
        if pre["due"] is not None and m["due"] is not None and m["due"] <= 0 and not fins:
            bad("C12.not_finished", f"transaction cancelled by {pre['cancel']} but no Transaction-Finished indication followed", by=pre["cancel"][0])
        if fins and cancel is not None and not pre["done"]:
            r = fins[0]
            by, cond = cancel
            if m["causes"] > 1:
                return v  # several cancellation causes in one transaction: which one is reported is not specified
            if r["cond"] != cond:
                bad("C12.finished_condition", f"Transaction-Finished reports {r['cond']} after a cancellation with {cond} ({by})", by=by)
            want_floc = floc_hex(2, c["idw_d"]) if by == "local" else floc_hex(1, c["idw_s"])
            need_pdu = c["mode"] == "ack" or c["closure"]
            if need_pdu:
                if not finpdus:
                    bad("C12.no_finished_pdu", f"no Finished PDU emitted with the Transaction-Finished indication (cancelled by {by})", by=by)
                else:
                    d = finpdus[0]
                    if d["cond"] != cond:
                        bad("C12.finished_pdu_condition", f"Finished PDU carries {d['cond']}, expected {cond}", by=by)
                    if d["floc"] != want_floc:
                        bad("C12.fault_location", f"Finished PDU fault location {d['floc']}, expected {want_floc} ({'local entity' if by == 'local' else 'sender'})", by=by)
                    if (d["deliv"], d["fstat"]) != (r["deliv"], r["fstat"]):
                        bad("C12.finished_mismatch", f"Finished PDU ({d['deliv']},{d['fstat']}) differs from the indication ({r['deliv']},{r['fstat']})")
            elif finpdus:
                bad("C12.unexpected_finished_pdu", "Finished PDU emitted in unacknowledged mode without closure")
            # disposition on cancellation
            data = core.read_file(self.dest_path)
            incomplete = r["deliv"] == "DATA_INCOMPLETE"
            want_absent = bool(c["disposition"] and incomplete)
            if not pre["md"] and not m["md"]:
                pass  # the Metadata never arrived: no destination file was ever created
            elif (data is None) != want_absent:
                bad("C12.disposition", f"destination file is {'absent' if data is None else 'present'} after cancellation (disposition {c['disposition']}, delivery {r['deliv']})",
                    disposition=c["disposition"], deliv=r["deliv"])
            if not incomplete and data != st.src:
                bad("C12.complete_but_wrong", f"delivery reported complete but the file is {None if data is None else data.hex()}")
        return v


def configs(tier):
    src, dst = [], []
    L = 2
    for size, mode, closure, cks in itertools.product((0, L - 1, 2 * L, 2 * L + 1), ("unack", "ack"), (False, True), ("crc32", "mod")):
        if mode == "ack" and closure:
            continue
        src.append(dict(size=size, seg=L, mode=mode, closure=closure, cks=cks, ack_limit=2))
    for mode, closure in itertools.product(("unack", "ack"), (False, True)):
        src.append(dict(md_only=True, size=0, mode=mode, closure=closure, ack_limit=2))
    # a second transaction on the same handler, after the first one ended in any way (completed, cancelled at any step)
    for mode, closure in (("unack", False), ("unack", True), ("ack", False)):
        src.append(dict(size=L + 1, seg=L, mode=mode, closure=closure, ack_limit=2, max_tx=2))
    for size, mode, closure, disp in itertools.product((L - 1, 2 * L + 1) if tier == "quick" else (0, L - 1, 2 * L, 2 * L + 1), ("unack", "ack"), (False, True), (False, True)):
        if mode == "ack" and closure:
            continue
        for nak in (("imm", "def") if mode == "ack" and tier == "thorough" else ("imm",)):
            dst.append(dict(size=size, seg=L, mode=mode, closure=closure, disposition=disp, nak=nak, ack_limit=2, nak_limit=2, check_limit=2))
    return src, dst


def run(tier: str) -> int:
    run_ = Run(P, tier, assumptions=[
        "'file bytes sent' = bytes of original File Data PDUs emitted before the cancel request",
        "an incomplete delivery is what the Transaction-Finished indication reports as DATA_INCOMPLETE; a delivery reported complete must be byte-identical",
        "EOF (cancel) PDUs are offered while the receiver is receiving file data (before any EOF); local cancel requests at every step",
    ])
    src, dst = configs(tier)
    worlds = [C12Src(**kw) for kw in src] + [C12Dst(**kw) for kw in dst]
    run_.bounds = {"sender_configs": len(src), "receiver_configs": len(dst), "segment_len": 2, "cancel_requests_per_run": 2}
    kw = dict(check_cycles=False, validate_stride=997, validate_terminals=3, n_samples=1, max_states=1_000_000, max_wall=(600 if tier == 'quick' else None))
    big = [w for w in worlds if isinstance(w, C12Dst) and w.c["mode"] == "ack" and w.c["size"] >= 4]
    small = [w for w in worlds if w not in big]
    run_.add_all(explore_many(small, procs=NPROC, **kw))
    for w in big:
        if run_.found_something():
            run_.skip(w)  # verdict already decided; a defect can make the remaining graphs unboundedly large
            continue
        run_.add(explore(w, procs=NPROC, **kw))
    return run_.finish(rule="complete reachable graph per configuration: cancel request with right / wrong id between any two calls at every step; EOF(cancel) at every point of file data reception")
