"""C09 - file checksums are correct for every content, length and chunking (DESIGN.md 4, C09).

World CKSUM: states are file contents grown one byte at a time (complete tree over an alphabet up
to a length bound); in every state every prefix length, every chunk length and the four checksum
types are evaluated against independent bit-by-bit reference implementations."""
from __future__ import annotations

import os
from pathlib import Path

from spacepackets.cfdp import ChecksumType

from cfdppy.filestore import NativeFilestore
from env import refcks
from env.core import CKS
from xmc import NPROC, SEED, sandbox
from xmc.engine import Violation, World, explore, explore_many
from xmc.report import Run

P = "C09"


class _S:
    def __init__(self):
        self.data = b""


class CksWorld(World):
    prop = P
    name = "CKSUM"
    uses_sandbox = False

    def build(self):
        return _S()

    def enabled(self, st):
        if len(st.data) >= self.cfg["maxlen"]:
            return []
        return [("app", b) for b in self.cfg["alphabet"]]

    def apply(self, st, ev):
        st.data += bytes([ev[1]])
        data = st.data
        path = Path(sandbox.root()) / "cks.bin"
        with open(path, "wb") as f:
            f.write(data)
        vfs = NativeFilestore()
        bad = []
        n = 0
        for tname, t in CKS.items():
            ref = refcks.REF[tname]
            for p in range(len(data) + 1):
                want = ref(data[:p])
                for chunk in range(1, len(data) + 2):
                    n += 1
                    try:
                        got = vfs.calculate_checksum(t, path, p, chunk)
                    except Exception as ex:  # noqa: BLE001
                        bad.append({"type": tname, "prefix": p, "chunk": chunk, "exc": type(ex).__name__})
                        continue
                    if got != want:
                        bad.append({"type": tname, "prefix": p, "chunk": chunk, "got": bytes(got).hex(), "want": want.hex(),
                                    "full": p == len(data)})
                # verification: true exactly for the reference value
                cands = [(want, True), (bytes([want[0] ^ 0x80]) + want[1:], False), (want[:3] + bytes([want[3] ^ 1]), False), (b"", False)]
                for val, expect in cands:
                    n += 1
                    try:
                        ok = vfs.verify_checksum(val, t, path, p, 3)
                    except Exception as ex:  # noqa: BLE001
                        bad.append({"type": tname, "prefix": p, "verify": val.hex(), "exc": type(ex).__name__})
                        continue
                    if bool(ok) != expect:
                        bad.append({"type": tname, "prefix": p, "verify": val.hex(), "got": bool(ok), "want": expect,
                                    "full": p == len(data)})
        obs = {"len": len(data), "evals": n}
        if bad:
            obs["bad"] = bad[:6]
            obs["nbad"] = len(bad)
        return obs

    def quiet(self, obs):
        return False

    def check(self, st, ev, obs):
        v = []
        seen = set()
        for b in obs.get("bad", []):
            if "exc" in b:
                clause, d = "C09.exception", dict(type=b["type"], exc=b["exc"])
            elif "verify" in b:
                clause, d = "C09.verify", dict(type=b["type"], accepted_wrong=b["got"], full=b["full"])
            else:
                clause, d = "C09.value", dict(type=b["type"], full=b["full"])
            k = (clause, tuple(sorted(d.items())))
            if k in seen:
                continue
            seen.add(k)
            v.append(Violation(P, clause, f"content {st.data.hex()}: {b}", **d))
        return v

BOUNDS = (255, 256, 257, 4095, 4096, 4097, 65535, 65536, 65537)


def _table(poly):
    t = []
    for b in range(256):
        c = b
        for _ in range(8):
            c = (c >> 1) ^ poly if c & 1 else c >> 1
        t.append(c)
    return t


_TABLES = {"crc32": _table(0xEDB88320), "crc32c": _table(0x82F63B78)}


def _ref_fast(tname, data: bytes) -> bytes:
    """Table-driven form of the bit-by-bit reference (the table is derived from the same shift/xor step and
    the result is compared with the bit-by-bit function on a 600 byte prefix in every evaluation)."""
    if tname not in _TABLES:
        return refcks.REF[tname](data)
    t, crc = _TABLES[tname], 0xFFFFFFFF
    for b in data:
        crc = (crc >> 8) ^ t[(crc ^ b) & 0xFF]
    return (crc ^ 0xFFFFFFFF).to_bytes(4, "big")


def big_content(pattern: str, n: int) -> bytes:
    if pattern == "ff":
        return bytes([0xFF]) * n
    return bytes(((i * 131 + (i >> 8) * 7 + 5) & 0xFF) for i in range(n))


class CksBoundaryWorld(World):
    """One large structured content (cfg: pattern, length at / next to a power-of-two boundary); the single event
    writes it and evaluates every (type, prefix, chunk) of the boundary menus: lengths at which a read cap, a
    16 bit length field or a block size of the filestore would show."""
    prop = P
    name = "CKSBIG"
    uses_sandbox = False

    def build(self):
        return _S()

    def enabled(self, st):
        return [] if st.data else [("write", self.cfg["pattern"], self.cfg["length"])]

    def apply(self, st, ev):
        data = big_content(ev[1], ev[2])
        st.data = b"x"  # marker only: the content is a function of the configuration
        path = Path(sandbox.root()) / "cksbig.bin"
        with open(path, "wb") as f:
            f.write(data)
        vfs = NativeFilestore()
        L = len(data)
        prefixes = sorted({p for p in BOUNDS if p <= L} | {0, L})
        chunks = sorted({c for c in BOUNDS + (1024, L, L + 1) if 1 <= c <= L + 1})
        bad, n = [], 0
        for tname, t in CKS.items():
            assert _ref_fast(tname, data[:600]) == refcks.REF[tname](data[:600])
            for p in prefixes:
                want = _ref_fast(tname, data[:p])
                for chunk in chunks:
                    n += 1
                    try:
                        got = vfs.calculate_checksum(t, path, p, chunk)
                    except Exception as ex:  # noqa: BLE001
                        bad.append({"type": tname, "prefix": p, "chunk": chunk, "exc": type(ex).__name__})
                        continue
                    if got != want:
                        bad.append({"type": tname, "prefix": p, "chunk": chunk, "got": bytes(got).hex(), "want": want.hex(), "full": p == L})
                for val, expect in ((want, True), (want[:3] + bytes([want[3] ^ 1]), False)):
                    for chunk in (4096, 65536):
                        n += 1
                        try:
                            ok = vfs.verify_checksum(val, t, path, p, chunk)
                        except Exception as ex:  # noqa: BLE001
                            bad.append({"type": tname, "prefix": p, "verify": val.hex(), "exc": type(ex).__name__})
                            continue
                        if bool(ok) != expect:
                            bad.append({"type": tname, "prefix": p, "verify": val.hex(), "got": bool(ok), "want": expect, "full": p == L})
        os.unlink(path)
        obs = {"len": L, "evals": n}
        if bad:
            obs["bad"] = bad[:6]
            obs["nbad"] = len(bad)
        return obs

    def quiet(self, obs):
        return False

    def check(self, st, ev, obs):
        v, seen = [], set()
        for b in obs.get("bad", []):
            if "exc" in b:
                clause, d = "C09.exception", dict(type=b["type"], exc=b["exc"])
            elif "verify" in b:
                clause, d = "C09.verify", dict(type=b["type"], accepted_wrong=b["got"], full=b["full"])
            else:
                clause, d = "C09.value", dict(type=b["type"], full=b["full"])
            k = (clause, tuple(sorted(d.items())))
            if k not in seen:
                seen.add(k)
                v.append(Violation(P, clause, f"content {ev[1]} x {ev[2]} bytes: {b}", **d))
        return v


def run(tier: str) -> int:
    run_ = Run(P, tier, assumptions=[
        "reference CRC-32 / CRC-32C are bit-by-bit implementations in the harness (self-checked on '123456789'); crcmod is not trusted",
        "the prefix length applies to all four checksum types (the modular checksum of a prefix is the sum over the zero-padded words of that prefix)",
        "the EOF checksum clause (source side) is decided in the SRC world by C07 (complete transfers) and C12 (cancelled transfers)",
    ])
    sb = ((SEED * 37 + 0x5A) % 254) + 1
    alpha = sorted({0x00, 0x01, 0x80, 0xFF, sb})
    n1 = 4 if tier == "quick" else 6
    worlds = [CksWorld(alphabet=list(range(256)), maxlen=1), CksWorld(alphabet=alpha, maxlen=n1),
              CksWorld(alphabet=[0x00, 0xFF], maxlen=9 if tier == "quick" else 11)]
    run_.bounds = {"all_256_bytes_at_length": 1, "alphabet": [hex(a) for a in alpha], "max_len_alphabet": n1,
                   "max_len_00_FF": worlds[2].cfg["maxlen"], "prefixes": "0..len", "chunks": "1..len+1", "types": list(CKS)}
    for w in worlds:
        r = explore(w, procs=NPROC, check_cycles=False, validate_stride=257, validate_terminals=4, n_samples=1)
        run_.add(r)
    lens = (257, 4097, 65535, 65536, 65537, 70001) if tier == "quick" else BOUNDS + (70001, 131073)
    big = [CksBoundaryWorld(pattern=pt, length=n) for pt in ("mix", "ff") for n in lens]
    run_.bounds["boundary_worlds"] = {"patterns": ["mix", "ff"], "lengths": list(lens), "prefixes": "0, len and every boundary value <= len",
                                      "chunks": "every boundary value <= len+1, 1024, len, len+1", "boundary_values": list(BOUNDS)}
    run_.add_all(explore_many(big, procs=NPROC, validate_stride=1, n_samples=1))
    return run_.finish(rule="complete tree of byte strings over the alphabet up to the length bound; per string all (prefix, chunk, type) combinations and 4 verification candidates per (prefix, type); plus the complete product (pattern x length x type x prefix x chunk) of the boundary worlds")
