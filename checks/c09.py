"""C09 - file checksums are correct for every content, length and chunking (DESIGN.md 4, C09).

World CKSUM: states are file contents grown one byte at a time (complete tree over an alphabet up
to a length bound); in every state every prefix length, every chunk length and the four checksum
types are evaluated against independent bit-by-bit reference implementations."""
from __future__ import annotations

import os
from pathlib import Path

from spacepackets.cfdp import ChecksumType

from cfdppy.filestore import NativeFilestore
from env import refcks
from env.core import CKS
from xmc import NPROC, SEED, sandbox
from xmc.engine import Violation, World, explore, explore_many
from xmc.report import Run

P = "C09"


class _S:
    def __init__(self):
        self.data = b""


class CksWorld(World):
    prop = P
    name = "CKSUM"
    uses_sandbox = False

    def build(self):
        return _S()

    def enabled(self, st):
        if len(st.data) >= self.cfg["maxlen"]:
            return []
        return [("app", b) for b in self.cfg["alphabet"]]

    def apply(self, st, ev):
        st.data += bytes([ev[1]])
        data = st.data
        path = Path(sandbox.root()) / "cks.bin"
        with open(path, "wb") as f:
            f.write(data)
        vfs = NativeFilestore()
        bad = []
        n = 0
        for tname, t in CKS.items():
            ref = refcks.REF[tname]
            for p in range(len(data) + 1):
                want = ref(data[:p])
                for chunk in range(1, len(data) + 2):
                    n += 1
                    try:
                        got = vfs.calculate_checksum(t, path, p, chunk)
                    except Exception as ex:  # noqa: BLE001
                        bad.append({"type": tname, "prefix": p, "chunk": chunk, "exc": type(ex).__name__})
                        continue
                    if got != want:
                        bad.append({"type": tname, "prefix": p, "chunk": chunk, "got": bytes(got).hex(), "want": want.hex(),
                                    "full": p == len(data)})
                # verification: true exactly for the reference value
                cands = [(want, True), (bytes([want[0] ^ 0x80]) + want[1:], False), (want[:3] + bytes([want[3] ^ 1]), False), (b"", False)]
                for val, expect in cands:
                    n += 1
                    try:
                        ok = vfs.verify_checksum(val, t, path, p, 3)
                    except Exception as ex:  # noqa: BLE001
                        bad.append({"type": tname, "prefix": p, "verify": val.hex(), "exc": type(ex).__name__})
                        continue
                    if bool(ok) != expect:
                        bad.append({"type": tname, "prefix": p, "verify": val.hex(), "got": bool(ok), "want": expect,
                                    "full": p == len(data)})
        obs = {"len": len(data), "evals": n}
        if bad:
            obs["bad"] = bad[:6]
            obs["nbad"] = len(bad)
        return obs

    def quiet(self, obs):
        return False

    def check(self, st, ev, obs):
        v = []
        seen = set()
        for b in obs.get("bad", []):
            if "exc" in b:
                clause, d = "C09.exception", dict(type=b["type"], exc=b["exc"])
            elif "verify" in b:
                clause, d = "C09.verify", dict(type=b["type"], accepted_wrong=b["got"], full=b["full"])
            else:
                clause, d = "C09.value", dict(type=b["type"], full=b["full"])
            k = (clause, tuple(sorted(d.items())))
            if k in seen:
                continue
            seen.add(k)
            v.append(Violation(P, clause, f"content {st.data.hex()}: {b}", **d))
        return v


def run(tier: str) -> int:
    run_ = Run(P, tier, assumptions=[
        "reference CRC-32 / CRC-32C are bit-by-bit implementations in the harness (self-checked on '123456789'); crcmod is not trusted",
        "the prefix length applies to all four checksum types (the modular checksum of a prefix is the sum over the zero-padded words of that prefix)",
        "the EOF checksum clause (source side) is decided in the SRC world by C07 (complete transfers) and C12 (cancelled transfers)",
    ])
    sb = ((SEED * 37 + 0x5A) % 254) + 1
    alpha = sorted({0x00, 0x01, 0x80, 0xFF, sb})
    n1 = 4 if tier == "quick" else 6
    worlds = [CksWorld(alphabet=list(range(256)), maxlen=1), CksWorld(alphabet=alpha, maxlen=n1),
              CksWorld(alphabet=[0x00, 0xFF], maxlen=9 if tier == "quick" else 11)]
    run_.bounds = {"all_256_bytes_at_length": 1, "alphabet": [hex(a) for a in alpha], "max_len_alphabet": n1,
                   "max_len_00_FF": worlds[2].cfg["maxlen"], "prefixes": "0..len", "chunks": "1..len+1", "types": list(CKS)}
    for w in worlds:
        r = explore(w, procs=NPROC, check_cycles=False, validate_stride=257, validate_terminals=4, n_samples=1)
        run_.add(r)
    return run_.finish(rule="complete tree of byte strings over the alphabet up to the length bound; per string all (prefix, chunk, type) combinations and 4 verification candidates per (prefix, type)")
