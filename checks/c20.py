"""C20 - PDU routing agrees with what each handler accepts (DESIGN.md 4, C20).

World ROUTE: the E2E system (fault-free, and with single drops so that the recovery steps are
reached) in which, at every reachable state, every PDU shape (type x direction flag x mode x id
width x CRC flag) is offered to both real handlers with matching ids; plus the complete
enumeration of acknowledge_inactive_eof_pdu."""
from __future__ import annotations

import itertools

from spacepackets.cfdp import ConditionCode, Direction
from spacepackets.cfdp.pdu import DirectiveType, TransactionStatus

from cfdppy.handler.common import PacketDestination, get_packet_destination
from cfdppy.handler.dest import acknowledge_inactive_eof_pdu
from env import core, pdus
from env.e2e import E2EWorld
from xmc import NPROC
from xmc.engine import Violation, World, explore, explore_many
from xmc.report import Run

P = "C20"
TABLE = {"FD": "D", "MD": "D", "EOF": "D", "PROMPT": "D", "ACKF": "D", "FIN": "S", "NAK": "S", "KA": "S", "ACKE": "S"}


def shapes(idws, crcs):
    return [(k, d, m, w, c) for k, d, m, w, c in itertools.product(pdus.KINDS, ("R", "S"), ("ack", "unack"), idws, crcs)]


class RouteWorld(E2EWorld):
    prop = P
    name = "ROUTE"

    def __init__(self, **cfg):
        super().__init__(**cfg)
        self.shapes = shapes(tuple(cfg.get("idws", (2,))), tuple(cfg.get("crcs", (False,))))

    def build(self):
        st = super().build()
        st.probed = None
        return st

    def _ack_family(self, i):
        k, d, m, w, c = self.shapes[i]
        return k in ("ACKE", "ACKF") and w == self.shapes[0][3] and c == self.shapes[0][4]

    def enabled(self, st):
        if st.probed:
            # a second probe, only within the small family of ACK shapes and at the same handler: routing /
            # admission of one ACK must not depend on an ACK seen before
            if st.probed[0] == 1 and self._ack_family(st.probed[2]):
                return [("probe", st.probed[1], i) for i in range(len(self.shapes)) if self._ack_family(i)]
            return []
        evs = super().enabled(st)
        for who in ("S", "D"):
            for i in range(len(self.shapes)):
                evs.append(("probe", who, i))
        return evs

    def apply(self, st, ev):
        if ev[0] != "probe":
            return super().apply(st, ev)
        who, i = ev[1], ev[2]
        kind, d, mode, w, crc = self.shapes[i]
        ent = getattr(st, who)
        tid = st.S.active_tid() or st.D.active_tid() or (1, 0)
        c = pdus.conf(src=(1, w), dst=(2, w), seq=(tid[1], self.c["seqw"]), mode=mode, crc=crc)
        kw = {}
        if kind == "FD":
            kw = dict(data=st.src_data[:2] or b"\x01", off=0)
        elif kind == "EOF":
            kw = dict(size=len(st.src_data))
        elif kind == "NAK":
            kw = dict(scope=(0, 0), reqs=[])
        pdu = pdus.build(kind, c, d, **kw)
        out = {"probe": [who, kind, d, mode, w, crc], "step": ent.h.states.step.name}
        try:
            out["route"] = "S" if get_packet_destination(pdu) == PacketDestination.SOURCE_HANDLER else "D"
        except Exception as ex:  # noqa: BLE001
            out["route_exc"] = type(ex).__name__
        obs, msgs = ent.step(pdu)
        if "exc" in obs:
            out["exc"] = obs["exc"]
        st.probed = [1, who, i] if not st.probed else [2, who, i]
        return out

    def check(self, st, ev, obs):
        if ev[0] != "probe":
            return []
        v = []
        who, kind, d, mode, w, crc = obs["probe"]
        want = TABLE[kind]
        if obs.get("route") != want:
            v.append(Violation(P, "C20.table", f"{kind} (dir {d}, {mode}, id width {w}, crc {crc}) routed to {obs.get('route', obs.get('route_exc'))}, expected {want}",
                               kind=kind, got=obs.get("route", obs.get("route_exc"))))
            return v
        e = obs.get("exc")
        other = "InvalidPduForSourceHandler" if who == "S" else "InvalidPduForDestHandler"
        if want == who:
            if e and e["exc"] in ("InvalidPduForSourceHandler", "InvalidPduForDestHandler"):
                v.append(Violation(P, "C20.refused_own", f"{kind} is routed to handler {who} but refused by it with {e['exc']} in step {obs['step']}",
                                   kind=kind, who=who, exc=e["exc"]))
        else:
            if not e:
                v.append(Violation(P, "C20.accepted_foreign", f"{kind} (dir {d}, {mode}) is routed to the other handler but was accepted by {who} in step {obs['step']}",
                                   kind=kind, who=who, dir=d))
            elif not e["protocol"]:
                v.append(Violation(P, "C20.foreign_not_refused", f"{kind} (dir {d}, {mode}) is routed to the other handler; {who} in step {obs['step']} "
                                   f"did not refuse it but failed with {e['exc']} in {e['site']}", kind=kind, who=who, exc=e["exc"], site=e["site"]))
        return v

    def quiet(self, obs):
        return False if "probe" in obs else super().quiet(obs)

    def outcome(self, st):
        return None


class _Nil:
    pass


class AckInactiveWorld(World):
    prop = P
    name = "ACK-INACTIVE"
    uses_sandbox = False

    def build(self):
        return _Nil()

    def enabled(self, st):
        return [("ack", cond.name, mode, w, crc, d, status.name)
                for cond, mode, w, crc, d, status in itertools.product(
                    (ConditionCode.NO_ERROR, ConditionCode.CANCEL_REQUEST_RECEIVED, ConditionCode.POSITIVE_ACK_LIMIT_REACHED,
                     ConditionCode.CHECK_LIMIT_REACHED, ConditionCode.FILE_CHECKSUM_FAILURE),
                    ("ack", "unack"), (1, 2, 4, 8), (False, True), ("R", "S"), list(TransactionStatus))]

    def apply(self, st, ev):
        _, cond, mode, w, crc, d, status = ev
        c = pdus.conf(src=(1, w), dst=(2, w), seq=(5, 2), mode=mode, crc=crc)
        eof = pdus.build("EOF", c, d, cond=cond, size=3)
        out = {}
        try:
            ack = acknowledge_inactive_eof_pdu(eof, TransactionStatus[status])
            out["ack"] = core.pdesc(ack)
        except Exception as ex:  # noqa: BLE001
            out["exc"] = type(ex).__name__
        return out

    def quiet(self, obs):
        return True

    def check(self, st, ev, obs):
        _, cond, mode, w, crc, d, status = ev
        v = []
        if status == "ACTIVE":
            if obs.get("exc") != "ValueError":
                v.append(Violation(P, "C20.ack_active", f"acknowledge_inactive_eof_pdu accepted status ACTIVE ({obs})"))
            return v
        if "exc" in obs:
            v.append(Violation(P, "C20.ack_exception", f"acknowledge_inactive_eof_pdu{ev[1:]} raised {obs['exc']}", exc=obs["exc"]))
            return v
        a = obs["ack"]
        want = dict(T="ACK", of="EOF_PDU", cond=cond, status=status, dir="TOWARDS_SENDER", src=[1, w], dst=[2, w], seq=[5, 2],
                    mode="ACKNOWLEDGED" if mode == "ack" else "UNACKNOWLEDGED", crc="WITH_CRC" if crc else "NO_CRC")
        for k, val in want.items():
            if a.get(k) != val:
                v.append(Violation(P, "C20.ack_field", f"acknowledge_inactive_eof_pdu{ev[1:]}: field {k} is {a.get(k)!r}, expected {val!r}", field=k))
        return v


def run(tier: str) -> int:
    run_ = Run(P, tier, assumptions=[
        "PDUs are offered with ids and sequence number matching the handler's transaction so that admission reaches the type check",
        "ACK PDUs acknowledging directives other than EOF / Finished cannot be built through the public constructor and are not in the alphabet",
    ])
    base = [dict(mode="ack", closure=False, size=3, seg=2, link="ff"), dict(mode="unack", closure=True, size=3, seg=2, link="ff"),
            dict(mode="unack", closure=False, size=3, seg=2, link="ff"), dict(mode="ack", closure=True, md_only=True, size=0, link="ff")]
    worlds = []
    full = dict(idws=(1, 2, 4, 8), crcs=(False, True))
    for b in base:
        worlds.append(RouteWorld(**b, **full))
    # single drops reach WAITING_FOR_METADATA / WAITING_FOR_MISSING_DATA / check-limit and retry steps
    for nak in ("imm", "def"):
        worlds.append(RouteWorld(mode="ack", closure=False, size=3, seg=2, link="k", K=1, kinds=("drop",), nak=nak,
                                 **(full if tier == "thorough" else dict(idws=(2,), crcs=(False,)))))
    worlds.append(RouteWorld(mode="unack", closure=True, size=3, seg=2, link="k", K=1, kinds=("drop", "delay"),
                             **(full if tier == "thorough" else dict(idws=(1,), crcs=(True,)))))
    run_.bounds = {"shapes": len(shapes((1, 2, 4, 8), (False, True))), "pdu_types": list(pdus.KINDS), "handler_states": "every state of the listed E2E graphs"}
    kw = dict(check_cycles=False, validate_stride=4999, validate_terminals=20, n_samples=1, max_states=3_000_000)
    if tier == "quick":
        run_.add_all(explore_many(worlds, procs=NPROC, **kw))
    else:
        for w in worlds:
            run_.add(explore(w, procs=NPROC, **kw))
    r = explore(AckInactiveWorld(), procs=1, check_cycles=False, n_samples=1)
    run_.add(r)
    return run_.finish(rule="every PDU shape offered to both handlers in every reachable state of the listed E2E graphs (probe successors are leaves); routing table and acknowledge_inactive_eof_pdu enumerated completely")
