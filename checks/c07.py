"""C07 - the source emits a conformant, complete and size-bounded PDU stream (DESIGN.md 4, C07).

World SRC: one real SourceHandler, fault-free receiver answers (ACK(EOF), Finished) offered when the
handler waits for them; the enumeration is over configurations, each explored completely."""
from __future__ import annotations

import itertools

from env import core, refcks
from env.src import SrcWorld
from xmc import NPROC
from xmc.engine import Violation, explore_many
from xmc.report import Run

P = "C07"


def header_len(c) -> int:
    return 4 + 2 * max(c["idw_s"], c["idw_d"]) + c["seqw"]


def eff_seg(c) -> int:
    derived = c["mpl"] - header_len(c) - 4 - (2 if c["crc_flag"] else 0)
    return derived if c["seg"] is None else min(c["seg"], derived)


def judge_stream(c, src, seq, pre_stream, pre_covered, emitted, bad):
    """Per-PDU oracle of the NAK-free stream, re-derived from the (effective) configuration ``c``:
    ``src`` the source file's bytes, ``seq`` the expected transaction sequence number."""
    w = max(c["idw_s"], c["idw_d"])
    stream = list(pre_stream)
    covered = pre_covered
    nfd = 0
    size = 0 if c["md_only"] else len(src)
    seg = eff_seg(c)
    for d in emitted:
        t = d["T"]
        want = dict(src=[c["idv_s"], w], dst=[c["idv_d"], w], seq=[seq + c["seq0"], c["seqw"]], mode="ACKNOWLEDGED" if core.eff_mode(c) == "ack" else "UNACKNOWLEDGED",
                    crc="WITH_CRC" if c["crc_flag"] else "NO_CRC", dir="TOWARDS_RECEIVER", large="NORMAL")
        for k, val in want.items():
            if d[k] != val:
                bad("C07.header", f"{t} PDU header field {k} = {d[k]!r}, expected {val!r}", field=k, T=t)
        if d["packed"] != d["plen"]:
            bad("C07.packet_len", f"{t} PDU packet_len {d['plen']} but pack() yields {d['packed']} bytes", T=t)
        if t in ("FD", "EOF", "ACK") and d["plen"] > c["mpl"]:
            bad("C07.max_packet_len", f"{t} PDU of {d['plen']} bytes exceeds max_packet_len {c['mpl']}", T=t)
        if t == "MD":
            if stream:
                bad("C07.order", f"Metadata PDU emitted after {stream}", T=t)
            exp = dict(size=size, sname=None if c["md_only"] else c.get("_sname", core.SRC_PATH),
                       dname=None if c["md_only"] else core.dest_path_requested(c),
                       cks="NULL_CHECKSUM" if c["md_only"] else core.CKS[c["cks"]].name, closure=core.eff_closure(c))
            for k, val in exp.items():
                if d[k] != val:
                    bad("C07.metadata", f"Metadata field {k} = {d[k]!r}, expected {val!r}", field=k)
        elif c["md_only"] and t in ("FD", "EOF"):
            bad("C07.order", f"{t} PDU emitted for a metadata-only request", T=t)
        elif t == "FD":
            nfd += 1
            ln = len(d["data"]) // 2
            if not stream or stream[0] != "MD":
                bad("C07.order", "File Data before Metadata", T=t)
            if "EOF" in stream:
                bad("C07.order", "File Data after the EOF", T=t)
            if d["off"] != covered:
                bad("C07.tiling", f"File Data at offset {d['off']} but {covered} bytes were sent so far (gap, overlap or repetition)", kind="offset")
            if ln == 0 or ln > seg:
                bad("C07.segment_len", f"File Data PDU carries {ln} bytes, effective segment length is {seg}", kind="len")
            if d["off"] + ln > size:
                bad("C07.tiling", f"File Data [{d['off']},{d['off'] + ln}) beyond the file size {size}", kind="beyond")
            elif bytes.fromhex(d["data"]) != src[d["off"]:d["off"] + ln]:
                bad("C07.data", f"File Data at {d['off']} = {d['data']} but the file has {src[d['off']:d['off'] + ln].hex()}")
            covered += ln
        elif t == "EOF":
            if "EOF" in stream:
                bad("C07.order", "second EOF PDU on a fault-free link", T=t)
            if covered != size:
                bad("C07.tiling", f"EOF after {covered} of {size} bytes", kind="incomplete")
            if d["size"] != size:
                bad("C07.eof", f"EOF file size {d['size']}, file has {size} bytes", field="size")
            wantc = refcks.REF[c["cks"]](src).hex()
            if d["cks"] != wantc:
                bad("C07.eof", f"EOF checksum {d['cks']}, reference {c['cks']} checksum of the file is {wantc}", field="checksum")
            if d["cond"] != "NO_ERROR":
                bad("C07.eof", f"EOF condition {d['cond']}", field="cond")
        elif t == "ACK":
            if d["of"] != "FINISHED_PDU":
                bad("C07.order", f"unexpected ACK of {d['of']}", T=t)
        else:
            bad("C07.order", f"unexpected {t} PDU from the source", T=t)
        stream.append(t)
    if nfd > 1:
        bad("C07.flow_control", f"{nfd} File Data PDUs emitted by one state-machine call")


class C07World(SrcWorld):
    prop = P
    name = "SRC-C07"
    default_alphabet = (("tick",), ("ackeof",), ("fin", "NO_ERROR", "DATA_COMPLETE", "FILE_RETAINED"))

    def init_model(self, st):
        st.m = {"stream": [], "covered": 0}

    def enabled(self, st):
        step = st.S.h.states.step.name
        evs = [("tick",)]
        if step == "WAITING_FOR_EOF_ACK":
            evs.append(("ackeof",))
        if step == "WAITING_FOR_FINISHED":
            evs.append(self.alphabet[2])
            if self.cfg.get("odd_fin"):
                # the peer's Finished PDU carries the ids of the transaction in wider fields / another CRC flag than the sender's
                # configuration: the ACK (Finished) the sender answers with must still follow the sender's own configuration
                c = self.c
                evs.append(("pdu", "FIN", None, (("crc", not c["crc_flag"]),)))
                evs.append(("pdu", "FIN", None, (("dst", (c["idv_d"], 8)), ("src", (c["idv_s"], 8)))))
        return evs

    def update_model(self, st, ev, out):
        m = {"stream": list(st.m["stream"]), "covered": st.m["covered"]}
        out["pre_stream"] = list(st.m["stream"])
        out["pre_covered"] = st.m["covered"]
        for d in self.emitted(out):
            m["stream"].append(d["T"])
            if d["T"] == "FD":
                m["covered"] += len(d["data"]) // 2
        st.m = m

    def check(self, st, ev, out):
        v = []

        def bad(clause, msg, **d):
            v.append(Violation(P, clause, f"{ev} ({out['pre_step']} -> {out['post_step']}): {msg}", **d))

        e = self.exc(out)
        if e:
            bad("C07.exception", f"{e['exc']} from {e['site']}: {e['msg']}", exc=e["exc"], site=e["site"])
        if self.faults(out):
            bad("C07.fault", f"fault callback {self.faults(out)}")
        for r in out.get("S", {}).get("reparse", []):
            bad("C07.serialisation", f"{r['T']} PDU does not survive pack()/PduFactory.from_raw: {r}", T=r["T"], what=sorted(r)[0] if "diff" not in r else "diff:" + ",".join(sorted(r["diff"])))
        judge_stream(self.c, st.src, out.get("tx", 0), out["pre_stream"], out["pre_covered"], self.emitted(out), bad)
        return v

    def terminal_check(self, st):
        c = self.c
        stream = st.m["stream"]
        nseg = 0 if c["md_only"] or not st.src else -(-len(st.src) // eff_seg(c))
        want = ["MD"] + ([] if c["md_only"] else ["FD"] * nseg + ["EOF"])
        if core.eff_mode(c) == "ack" and (not c["md_only"] or core.eff_closure(c)):
            want.append("ACK")
        v = []
        if stream != want:
            v.append(Violation(P, "C07.incomplete", f"PDU stream {stream}, expected {want}", got=len(stream), want=len(want)))
        if not self.idle(st):
            v.append(Violation(P, "C07.not_idle", f"source handler ends in step {st.S.h.states.step.name}"))
        return v

    def outcome(self, st):
        return st.S.h.states.step.name

    def quiet(self, obs):
        return "S" not in obs and obs.get("pre_step") == obs.get("post_step")


from cfdppy.filestore import NativeFilestore  # noqa: E402


class FlakyReadFs(NativeFilestore):
    """Native filestore whose next read_data / calculate_checksum can fail once (a documented answer of a filestore)."""

    def __init__(self):
        super().__init__()
        self.fail_read = False
        self.fail_cks = False
        self.fired = None

    def read_data(self, file, offset, read_len=None):
        if self.fail_read:
            self.fail_read = False
            self.fired = "read_data"
            raise PermissionError(f"xmc: injected read failure for {file}")
        return super().read_data(file, offset, read_len)

    def calculate_checksum(self, checksum_type, file_path, size_to_verify, segment_len=4096):
        if self.fail_cks:
            self.fail_cks = False
            self.fired = "calculate_checksum"
            raise PermissionError(f"xmc: injected checksum read failure for {file_path}")
        return super().calculate_checksum(checksum_type, file_path, size_to_verify, segment_len)


def _make_flaky_fs():
    return FlakyReadFs()


class C07Flaky(C07World):
    """The source filestore fails one read (file data or checksum calculation) at any point: the failing call may raise,
    but the stream resumes exactly where it was - nothing skipped, nothing repeated."""

    name = "SRC-C07-FLAKY"
    ARM = {"readfail": "fail_read", "cksfail": "fail_cks"}

    def make_vfs(self):
        return _make_flaky_fs()

    def init_model(self, st):
        st.m = {"stream": [], "covered": 0, "faults_left": self.cfg.get("read_faults", 1)}

    def enabled(self, st):
        evs = super().enabled(st)
        vfs = st.S.user.vfs
        if st.m["faults_left"] > 0 and not vfs.fail_read and not vfs.fail_cks and st.S.h.state.name == "BUSY" and "EOF" not in st.m["stream"]:
            evs = evs + [("readfail",), ("cksfail",)]
        return evs

    def apply(self, st, ev):
        vfs = st.S.user.vfs
        if ev[0] in self.ARM:
            setattr(vfs, self.ARM[ev[0]], True)
            m = dict(st.m)
            m["faults_left"] -= 1
            st.m = m
            step = st.S.h.states.step.name
            return {"armed": ev[0], "pre_step": step, "post_step": step}
        vfs.fired = None
        out = super().apply(st, ev)
        if vfs.fired:
            out["fired"] = vfs.fired
            vfs.fired = None
        return out

    def update_model(self, st, ev, out):
        left = st.m["faults_left"]
        super().update_model(st, ev, out)
        st.m = dict(st.m, faults_left=left)

    def quiet(self, obs):
        return "armed" not in obs and "fired" not in obs and super().quiet(obs)

    def check(self, st, ev, out):
        if "armed" in out:
            return []
        v = super().check(st, ev, out)
        if out.get("fired"):
            # the injected failure may surface as an exception of this call; everything else is judged as usual
            v = [x for x in v if x["clause"] != "C07.exception"]
            if self.emitted(out, "EOF") and out["fired"] == "calculate_checksum":
                v.append(Violation(P, "C07.eof", f"{ev}: EOF PDU emitted although the checksum calculation failed in this call", field="checksum"))
        return v


class HugeFs(NativeFilestore):
    """reports a 2^32+5 byte file whose bytes are a function of the offset"""

    SIZE = 2 ** 32 + 5

    def file_size(self, file):
        return self.SIZE

    def read_data(self, file, offset, read_len=None):
        off = offset or 0
        n = min(read_len if read_len is not None else 0, max(0, self.SIZE - off))
        return bytes(((off + i) * 13 + 7) % 251 + 1 for i in range(n))


def _make_huge_fs():
    return HugeFs()


class C07Large(SrcWorld):
    """Prefix run of a large-file (64 bit size) transfer: Metadata and the first File Data PDUs only."""

    prop = P
    name = "SRC-C07-LARGE"
    autoput = False

    def build(self):
        import os

        c = self.c
        from env.src import SrcState
        st = SrcState()
        os.makedirs("in", exist_ok=True)
        with open(core.SRC_PATH, "wb") as f:
            f.write(b"x")
        st.S = core.make_source(c, vfs=_make_huge_fs())
        st.m = {"n": 0, "covered": 0}
        ok = st.S.h.put_request(self.put_req("valid"))
        assert ok
        st.nput = 1
        return st

    def enabled(self, st):
        return [("tick",)] if st.m["n"] < self.cfg.get("calls", 4) else []

    def update_model(self, st, ev, out):
        m = dict(st.m)
        out["pre_covered"] = m["covered"]
        out["n"] = m["n"]
        m["n"] += 1
        for d in self.emitted(out, "FD"):
            m["covered"] += len(d["data"]) // 2
        st.m = m

    def quiet(self, obs):
        return False

    def check(self, st, ev, out):
        v = []
        c = self.c
        size = 2 ** 32 + 5
        w = max(c["idw_s"], c["idw_d"])
        seg = c["mpl"] - header_len(c) - 8 - (2 if c["crc_flag"] else 0)
        if c["seg"] is not None:
            seg = min(seg, c["seg"])

        def bad(clause, msg, **d):
            v.append(Violation(P, clause, f"large file, call {out['n']}: {msg}", large=True, **d))

        e = self.exc(out)
        if e:
            bad("C07.exception", f"{e['exc']} from {e['site']}: {e['msg']}", exc=e["exc"], site=e["site"])
        for r in out.get("S", {}).get("reparse", []):
            bad("C07.serialisation", f"{r['T']} PDU does not survive pack()/PduFactory.from_raw: {r}", T=r["T"])
        covered = out["pre_covered"]
        emitted = self.emitted(out)
        if out["n"] == 0 and [d["T"] for d in emitted] != ["MD"]:
            bad("C07.order", f"first call emitted {[d['T'] for d in emitted]}, expected the Metadata PDU")
        if out["n"] > 0 and [d["T"] for d in emitted] != ["FD"]:
            bad("C07.flow_control", f"call emitted {[d['T'] for d in emitted]}, expected exactly one File Data PDU")
        for d in emitted:
            if d["large"] != "LARGE":
                bad("C07.header", f"{d['T']} PDU of a {size} byte file does not carry the large file flag", field="large", T=d["T"])
            if d["src"] != [1, w] or d["dst"] != [2, w] or d["seq"] != [0, c["seqw"]]:
                bad("C07.header", f"{d['T']} PDU ids {d['src']} {d['dst']} {d['seq']}", field="ids", T=d["T"])
            if d["packed"] != d["plen"]:
                bad("C07.packet_len", f"{d['T']} PDU packet_len {d['plen']} but pack() yields {d['packed']} bytes", T=d["T"])
            if d["T"] == "MD" and d["size"] != size:
                bad("C07.metadata", f"Metadata file size {d['size']}, expected {size}", field="size")
            if d["T"] == "FD":
                ln = len(d["data"]) // 2
                if d["off"] != covered:
                    bad("C07.tiling", f"File Data at offset {d['off']} but {covered} bytes were sent so far", kind="offset")
                if ln == 0 or ln > seg:
                    bad("C07.segment_len", f"File Data PDU carries {ln} bytes, effective segment length with a 64 bit offset is {seg}", kind="len")
                if d["plen"] > c["mpl"]:
                    bad("C07.max_packet_len", f"File Data PDU of {d['plen']} bytes exceeds max_packet_len {c['mpl']}", T="FD")
                covered += ln
        return v


def configs(tier):
    out = []

    def add(**kw):
        out.append(kw)

    sizes_for = lambda L: list(range(0, 3 * L + 2))  # noqa: E731
    # every size x segment length
    for L in (1, 2, 3, 5):
        for size, mode in itertools.product(sizes_for(L), ("unack", "ack")):
            add(seg=L, size=size, mode=mode, closure=(mode == "unack"))
    # derived segment length: max_packet_len from the minimum that fits one byte upwards; configured <, =, > derived
    for crc, mode in itertools.product((False, True), ("unack", "ack")):
        base = 4 + 4 + 2 + 4 + (2 if crc else 0)
        # the EOF PDU (header + 10 bytes) must fit as well, so the smallest feasible derived length is 6
        for derived in (6, 7, 8):
            for seg in (None, derived - 1, derived, derived + 2):
                for size in (0, 1, derived, derived + 1, 2 * derived + 1):
                    add(seg=seg, mpl=base + derived, crc_flag=crc, size=size, mode=mode, closure=True)
    # checksum types x CRC flag
    for cks, crc, mode, size in itertools.product(("crc32", "crc32c", "mod", "null"), (False, True), ("unack", "ack"), (0, 3, 5, 9)):
        add(cks=cks, crc_flag=crc, mode=mode, size=size, seg=4, closure=False)
    # id / sequence number widths
    for ws, wd, sw, mode, crc in itertools.product((1, 2, 4, 8), (1, 2, 4, 8), (1, 2, 4), ("unack", "ack"), (False, True)):
        add(idw_s=ws, idw_d=wd, seqw=sw, mode=mode, crc_flag=crc, size=5, seg=2, closure=True, mpl=64)
    # entity ids and sequence numbers at the top of their width
    for ws, wd, sw, mode in itertools.product((1, 2, 4, 8), (1, 2, 4, 8), (1, 2, 4), ("unack", "ack")):
        add(idw_s=ws, idw_d=wd, seqw=sw, idv_s=(1 << (8 * ws)) - 1, idv_d=(1 << (8 * wd)) - 2, seq0=(1 << (8 * sw)) - 1, mode=mode, size=5, seg=2, closure=True, mpl=64)
    # Finished PDUs whose header differs from the sender's configuration (same ids)
    for crc, ws, mpl in itertools.product((False, True), (1, 2), (64, 24)):
        add(mode="ack", closure=False, size=3, seg=2, crc_flag=crc, idw_s=ws, idw_d=ws, seqw=2, mpl=mpl, odd_fin=True)
    # closure, metadata only
    for mode, closure, md in itertools.product(("unack", "ack"), (False, True), (False, True)):
        add(mode=mode, closure=closure, md_only=md, size=0 if md else 3, seg=2)
    # request-level mode / closure against the MIB defaults: all 2 x 3 x 2 x 3 combinations ("none" = the request leaves it to the MIB)
    for mode, rmode, closure, rclosure, md in itertools.product(("unack", "ack"), ("none", "unack", "ack"), (False, True), ("none", False, True), (False, True)):
        add(mode=mode, req_mode=rmode, closure=closure, req_closure=rclosure, md_only=md, size=0 if md else 3, seg=2)
    if True:  # both tiers (the whole product takes seconds)
        for L, crc, cks, mode, closure in itertools.product((1, 2, 3, 4), (False, True), ("crc32", "crc32c", "mod", "null"), ("unack", "ack"), (False, True)):
            for size in sizes_for(L):
                add(seg=L, size=size, crc_flag=crc, cks=cks, mode=mode, closure=closure)
        for ws, wd, sw, mode, crc, seg in itertools.product((1, 2, 4, 8), (1, 2, 4, 8), (1, 2, 4), ("unack", "ack"), (False, True), (None, 3)):
            base = 4 + 2 * max(ws, wd) + sw + 4 + (2 if crc else 0)
            for size in (0, 1, 6, 7, 13):
                add(idw_s=ws, idw_d=wd, seqw=sw, mode=mode, crc_flag=crc, size=size, seg=seg, closure=True, mpl=base + 6)
    seen, uniq = set(), []
    for kw in out:
        k = tuple(sorted(kw.items(), key=lambda kv: kv[0]))
        if k not in seen:
            seen.add(k)
            uniq.append(kw)
    return uniq


def run(tier: str) -> int:
    run_ = Run(P, tier, assumptions=[
        "effective segment length re-derived in the harness: min(configured, max_packet_len - header - 4 byte offset - 2 byte CRC)",
        "EOF condition code is excluded from the parse-back comparison (spacepackets 0.26.1 EofPdu.unpack bug, outside this repository)",
        "large-file (64 bit size) transfers are exercised as prefix runs only (Metadata and the first three File Data PDUs of a 2^32+5 byte file served by a filestore wrapper)",
        "flaky-read worlds: a filestore read_data / calculate_checksum call that raises PermissionError once may surface as an exception of that state-machine call; the stream must resume without gap or repetition",
    ])
    cfgs = configs(tier)
    worlds = [C07World(**kw) for kw in cfgs]
    run_.bounds = {"configurations": len(worlds), "segment_lengths": "1,2,3,5 and derived 6..8 (max_packet_len from the smallest that fits the EOF PDU)", "sizes": "0..3L+1 (every value)"}
    results = explore_many(worlds, procs=NPROC, cycle_clause=(P, "C07.cycle"), validate_stride=3, validate_terminals=2, n_samples=1)
    run_.add_all(results)
    # large-file prefix runs (not continued to the EOF: 2^32 bytes would have to be sent)
    large = [C07Large(mode=mode, closure=False, crc_flag=crc, seg=seg, mpl=mpl, idw_s=ws, idw_d=ws, seqw=sw, size=1, calls=4)
             for mode, crc, (seg, mpl), (ws, sw) in itertools.product(("unack", "ack"), (False, True), ((None, 40), (5, 64), (None, 64)), ((2, 2), (1, 1), (8, 4)))]
    run_.add_all(explore_many(large, procs=NPROC, check_cycles=False, validate_stride=2, validate_terminals=1, n_samples=1))
    run_.bounds["large_file_prefix_runs"] = len(large)
    # one failing filestore read (file data or checksum) at any point of the transfer
    flaky = [C07Flaky(mode=mode, closure=(mode == "unack"), size=size, seg=2, cks=cks, read_faults=nf)
             for mode, size, cks, nf in itertools.product(("unack", "ack"), (1, 4, 5), ("crc32", "mod"), (1, 2) if tier == "thorough" else (1,))]
    run_.add_all(explore_many(flaky, procs=NPROC, cycle_clause=(P, "C07.cycle"), validate_stride=5, validate_terminals=2, n_samples=1))
    run_.bounds["flaky_read_worlds"] = len(flaky)
    return run_.finish(rule="one complete run graph per configuration (tick until done; ACK(EOF) / Finished offered when awaited); per-PDU oracle re-derived from the configuration")
