"""C02 - every transfer over a fault-free link completes successfully in every mode
(DESIGN.md 4, C02).  World E2E-FF: real SourceHandler + DestHandler over a FIFO link; every
interleaving of state-machine calls and deliveries; urgent time."""
from __future__ import annotations

import itertools

from spacepackets.cfdp.pdu.file_data import get_max_file_seg_len_for_max_packet_len_and_pdu_cfg  # noqa: F401

from env.e2e import E2EWorld
from xmc import NPROC
from xmc.engine import Violation, explore_many
from xmc.report import Run

P = "C02"


class C02World(E2EWorld):
    prop = P
    name = "E2E-FF"
    link_default = "ff"

    def check(self, st, ev, obs):
        v = []
        if "shell" in obs and not obs.get("pdu", "").startswith("FIN"):
            # on a fault-free link the only PDU that may reach an entity after it closed the transaction is the
            # Finished PDU of an acknowledged metadata-only transfer without closure (answered by the shell)
            v.append(Violation(P, "C02.stray_pdu", f"{ev}: PDU {obs.get('pdu')} arrived for a transaction the addressed entity had already closed "
                                                    f"(fault-free link: the sender emitted a PDU that does not belong to the transfer)", pdu=obs.get("pdu", "?")[:3]))
        if ev[0] == "putbusy" and obs.get("S", {}).get("ret") is not False:
            v.append(Violation(P, "C02.busy_put_accepted", f"put request on the busy source handler returned {obs.get('S', {}).get('ret')!r}, expected False"))
        for who in ("S", "D"):
            o = obs.get(who)
            if not o:
                continue
            if "exc" in o:
                e = o["exc"]
                v.append(Violation(P, "C02.exception", f"{who}: {e['exc']} raised in {e['site']} on a fault-free link: {e['msg']}",
                                   who=who, exc=e["exc"], site=e["site"]))
            for f in o.get("faults", []):
                v.append(Violation(P, "C02.fault", f"{who}: fault callback {f['fault']}({f['cond']}) fired on a fault-free link",
                                   who=who, kind=f["fault"], cond=f["cond"]))
        return v

    def terminal_check(self, st):
        why = self.success_goal(st)
        if why:
            return [Violation(P, "C02.terminal", "fault-free transfer ended without successful completion: " + "; ".join(why),
                              why=why[0].split(" (")[0], mode=self.c["mode"], md_only=self.c["md_only"])]
        return []

    def cycle_detail(self, evs):
        return {"events": sorted({e[0] for e in evs})}


def min_mpl_for_seg(idw, seqw, crc, seg):
    # header: 4 fixed + 2*idw + seqw ; file data: 4 byte offset ; crc 2
    return 4 + 2 * idw + seqw + 4 + (2 if crc else 0) + seg


def configs(tier: str):
    L = 3
    sizes = [0, 1, L - 1, L, L + 1, 2 * L, 2 * L + 1]
    out = []

    def add(**kw):
        kw.setdefault("seg", L)
        out.append(kw)

    # core product
    for mode, closure, size, shape in itertools.product(("ack", "unack"), (False, True), sizes, ("new", "existing", "dir", "dir_existing")):
        for nak in (("imm", "def") if mode == "ack" else ("imm",)):
            add(mode=mode, closure=closure, size=size, shape=shape, nak=nak)
    # checksum type x PDU CRC flag
    for cks, crc, mode, closure, size in itertools.product(("crc32", "crc32c", "mod", "null"), (False, True), ("ack", "unack"),
                                                           (False, True), (0, L + 1)):
        add(cks=cks, crc_flag=crc, mode=mode, closure=closure, size=size)
    # id / sequence number widths
    for ws, wd, sw, mode in itertools.product((1, 2, 4, 8), (1, 2, 4, 8), (1, 2, 4), ("ack", "unack")):
        add(idw_s=ws, idw_d=wd, seqw=sw, mode=mode, closure=True, size=L + 1)
    # entity ids and sequence numbers at the top of their width (second transaction wraps nowhere: top-1, top)
    for ws, wd, sw, (mode, closure) in itertools.product((1, 2, 8), (1, 2, 8), (1, 2, 4), (("ack", False), ("unack", True))):
        add(idw_s=ws, idw_d=wd, seqw=sw, idv_s=(1 << (8 * ws)) - 1, idv_d=(1 << (8 * wd)) - 2, seq0=(1 << (8 * sw)) - 2, mode=mode, closure=closure,
            size=L + 1, tx2=dict(req_mode="ack" if mode == "unack" else "unack", req_closure=True))
    # segment lengths: configured 1,2,5 and derived from the maximum packet length
    for seg, mode, size in itertools.product((1, 2, 5), ("ack", "unack"), (0, 1, 5, 6)):
        if seg == 1 and size > 5:
            continue
        add(seg=seg, mode=mode, closure=True, size=size)
    for crc, mode, size, derived in itertools.product((False, True), ("ack", "unack"), (1, 3, 5), (1, 2)):
        add(seg=None, mpl=min_mpl_for_seg(2, 2, crc, derived), crc_flag=crc, mode=mode, closure=True, size=size)
        add(seg=9, mpl=min_mpl_for_seg(2, 2, crc, derived), crc_flag=crc, mode=mode, closure=True, size=size)
    # metadata only
    for mode, closure, msgs in itertools.product(("ack", "unack"), (False, True), ("none", "plain", "both")):
        add(md_only=True, mode=mode, closure=closure, msgs=msgs, size=0)
    # request-level mode / closure overriding the MIB defaults (file and metadata-only requests)
    for mode, closure, rm, rc, md in itertools.product(("ack", "unack"), (False, True), ("none", "ack", "unack"), ("none", True, False), (False, True)):
        if rm == "none" and rc == "none":
            continue
        add(mode=mode, closure=closure, req_mode=rm, req_closure=rc, md_only=md, size=0 if md else L + 1)
    # two consecutive transactions on the same pair of handlers; the second one overrides mode / closure in its request
    for (mode, closure), (m2, c2), size in itertools.product((("ack", False), ("unack", True), ("unack", False)),
                                                             (("ack", False), ("unack", True), ("unack", False)), (0, L + 1)):
        add(mode=mode, closure=closure, size=size, tx2=dict(req_mode=m2, req_closure=c2))
    for (mode, closure), size in itertools.product((("ack", False), ("unack", True), ("unack", False)), (0, L + 1)):
        add(mode=mode, closure=closure, size=size, tx2=dict(md_only=True))
        if size:
            for cks in ("crc32", "mod"):
                add(mode=mode, closure=closure, size=size, cks=cks, tx2=dict(rewrite=True))  # same file name and length, other contents
        add(mode=mode, closure=closure, size=size, md_only=True, tx2=dict(md_only=False))
    # a premature put request (refused: the handler is busy) at any point of the transfer must leave it alone
    for mode, closure, size, md in itertools.product(("ack", "unack"), (False, True), (0, L + 1, 2 * L + 1), (False, True)):
        if md and size:
            continue
        add(mode=mode, closure=closure, size=size, md_only=md, busy_puts=1)
    # zero-filled content
    for mode in ("ack", "unack"):
        add(mode=mode, closure=True, size=L + 1, zero=True)
    if tier == "quick":
        # quick: the same product over a subset of sizes and segment lengths
        for mode, closure, cks, crc, size, shape, seg in itertools.product(
                ("ack", "unack"), (False, True), ("crc32", "crc32c", "mod", "null"), (False, True), (0, L + 1, 2 * L + 1),
                ("new", "existing", "dir", "dir_existing"), (2, 3)):
            for nak in (("imm", "def") if mode == "ack" else ("imm",)):
                add(mode=mode, closure=closure, cks=cks, crc_flag=crc, size=size, shape=shape, seg=seg, nak=nak)
    if tier == "thorough":
        for mode, closure, cks, crc, size, shape, seg in itertools.product(
                ("ack", "unack"), (False, True), ("crc32", "crc32c", "mod", "null"), (False, True), sizes + [3 * L, 3 * L + 1],
                ("new", "existing", "dir", "dir_existing"), (1, 2, 3)):
            if seg == 1 and size > 4:
                continue
            for nak in (("imm", "def") if mode == "ack" else ("imm",)):
                add(mode=mode, closure=closure, cks=cks, crc_flag=crc, size=size, shape=shape, seg=seg, nak=nak)
        for ws, wd, sw, mode, closure, crc in itertools.product((1, 2, 4, 8), (1, 2, 4, 8), (1, 2, 4), ("ack", "unack"), (False, True),
                                                                 (False, True)):
            add(idw_s=ws, idw_d=wd, seqw=sw, mode=mode, closure=closure, crc_flag=crc, size=2 * L + 1)
    # de-duplicate
    seen, uniq = set(), []
    for kw in out:
        k = repr(sorted(kw.items(), key=lambda kv: kv[0]))
        if k not in seen:
            seen.add(k)
            uniq.append(kw)
    return uniq


def run(tier: str) -> int:
    run_ = Run(P, tier, assumptions=[
        "link delivers every PDU once and in order; timers may expire only when no PDU is deliverable and every state-machine call is a no-op (urgent time)",
        "the entity shell drains the outbound queue after every call and answers PDUs of transactions it already closed (ACK of a late Finished PDU)",
    ])
    cfgs = configs(tier)
    worlds = [C02World(**kw) for kw in cfgs]
    run_.bounds = {"configurations": len(worlds), "segment_len": "1,2,3,5,derived", "file_sizes": "0..3*L+1 (L=3)",
                   "interleavings": "all orders of tick(S), tick(D), recv(S), recv(D), expire at quiescence"}
    results = explore_many(worlds, procs=NPROC, cycle_clause=(P, "C02.cycle"), validate_stride=97, n_samples=1, max_states=200_000)
    run_.add_all(results)
    return run_.finish(rule="one complete state graph per configuration; configurations = stated product of modes, closure, NAK mode, sizes, shapes, checksum types, CRC flag, id/seq widths, segment lengths")
