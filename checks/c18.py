"""C18 - lost-segment bookkeeping refines an exact interval set (DESIGN.md 4, C18).

World TRK: the real LostSegmentTracker next to an independent list-of-ranges model; all add /
remove / coalesce operations the property quantifies over, explored to the fixed point.
"""
from __future__ import annotations

import os

from xmc.engine import Violation, World, explore
from xmc.report import Run

from cfdppy.handler.dest import LostSegmentTracker

P = "C18"


class _St:
    def __init__(self):
        self.trk = LostSegmentTracker()
        self.model: list = []  # sorted disjoint (s, e)


def _bytes(ranges) -> frozenset:
    out = set()
    for s, e in ranges:
        out.update(range(s, e))
    return frozenset(out)


class TrkWorld(World):
    prop = P
    name = "TRK"
    uses_sandbox = False

    def build(self):
        return _St()

    def enabled(self, st):
        n = self.cfg["n"]
        evs = []
        have = _bytes(st.model)
        for s in range(n + 1):
            for e in range(s + 1, n + 1):
                if not (have & set(range(s, e))):
                    evs.append(("add", s, e))
        for s in range(n + 1):
            for e in range(s, n + 1):
                kind = self._classify(st.model, s, e)
                if kind is not None:
                    evs.append(("remove", s, e, kind))
        evs.append(("coalesce",))
        return evs

    @staticmethod
    def _classify(model, s, e):
        if s == e:
            return "empty"
        for rs, re_ in model:
            if rs <= s and e <= re_:
                return "inside"
        if not (_bytes(model) & set(range(s, e))):
            return "none"
        for rs, re_ in model:
            if rs <= s < re_ and e > re_:
                return "straddle"
        return None  # starts outside a range and overlaps one: outside the property's alphabet

    def apply(self, st, ev):
        obs = {"before": list(st.trk.lost_segments.items())}
        pre_set = _bytes(st.trk.lost_segments.items())
        pre_items = list(st.trk.lost_segments.items())
        try:
            if ev[0] == "add":
                st.trk.add_lost_segment((ev[1], ev[2]))
                st.model.append((ev[1], ev[2]))
                st.model.sort()
            elif ev[0] == "remove":
                s, e, kind = ev[1], ev[2], ev[3]
                obs["ret"] = st.trk.remove_lost_segment((s, e))
                if kind == "inside":
                    new = []
                    for rs, re_ in st.model:
                        if rs <= s and e <= re_:
                            if rs < s:
                                new.append((rs, s))
                            if e < re_:
                                new.append((e, re_))
                        else:
                            new.append((rs, re_))
                    st.model = sorted(new)
            else:
                st.trk.coalesce_lost_segments()
                merged = []
                for rs, re_ in st.model:
                    if merged and merged[-1][1] == rs:
                        merged[-1] = (merged[-1][0], re_)
                    else:
                        merged.append((rs, re_))
                st.model = merged
        except Exception as ex:  # noqa: BLE001
            obs["exc"] = type(ex).__name__
        obs["after"] = list(st.trk.lost_segments.items())
        obs["_pre_set"] = sorted(pre_set)
        obs["_pre_items"] = pre_items
        obs["num"] = st.trk.num_lost_segments
        return obs

    def quiet(self, obs):
        return True

    def check(self, st, ev, obs):
        v = []
        items = list(st.trk.lost_segments.items())
        denoted = _bytes(items)
        want = _bytes(st.model)
        pre = frozenset(obs["_pre_set"])
        kind = ev[3] if ev[0] == "remove" else None

        def bad(clause, msg, **d):
            v.append(Violation(P, clause, msg, op=ev[0], kind=kind, **d))

        if kind == "straddle":
            if obs.get("exc") != "ValueError":
                bad("C18.straddle", f"straddling removal {ev[1:3]} not refused with ValueError (got {obs.get('exc')}, ret {obs.get('ret')})")
            if items != [tuple(x) for x in obs["_pre_items"]]:
                bad("C18.straddle_state", f"refused straddling removal changed the tracker: {obs['_pre_items']} -> {items}")
            return v
        if "exc" in obs:
            bad("C18.exception", f"{ev} raised {obs['exc']}", exc=obs["exc"])
            return v
        if denoted != want:
            bad("C18.set", f"after {ev}: tracker denotes {sorted(denoted)} but model {sorted(want)} (ranges {items})")
        if [s for s, _ in items] != sorted(s for s, _ in items):
            bad("C18.order", f"ranges not ascending after {ev}: {items}")
        if any(e <= s for s, e in items):
            bad("C18.empty_range", f"empty or inverted range after {ev}: {items}")
        # ranges must be pairwise disjoint to denote a set unambiguously
        tot = sum(e - s for s, e in items if e > s)
        if tot != len(denoted):
            bad("C18.overlap", f"overlapping ranges after {ev}: {items}")
        if obs["num"] != len(items):
            bad("C18.count", f"num_lost_segments {obs['num']} != {len(items)}")
        if ev[0] == "remove":
            changed = denoted != pre
            if obs.get("ret") is not changed:
                bad("C18.remove_ret", f"remove {ev[1:3]} returned {obs.get('ret')} but set changed={changed}")
        if ev[0] == "coalesce":
            if denoted != pre:
                bad("C18.coalesce_set", f"coalescing changed the denoted set: {sorted(pre)} -> {sorted(denoted)}")
            for (s1, e1), (s2, e2) in zip(items, items[1:]):
                if e1 == s2:
                    bad("C18.coalesce_adjacent", f"adjacent ranges left after coalescing: {items}")
                    break
        return v

    def outcome(self, st):
        return len(st.model)


def run(tier: str) -> int:
    run_ = Run(P, tier, assumptions=[
        "operations outside the property's alphabet (removal starting outside a tracked range but overlapping one, additions overlapping tracked bytes) are not issued",
    ])
    n = int(os.environ.get("C18_N", "9" if tier == "quick" else "12"))
    run_.bounds = {"offsets": f"0..{n}", "depth": "fixed point (complete reachable set)"}
    res = explore(TrkWorld(n=n), procs=16 if tier == "thorough" else 8, check_cycles=False, validate_stride=53)
    run_.add(res)
    return run_.finish(rule="every add/remove/coalesce enabled in every reachable tracker content over the offset universe")
