"""C01 - a reported successful delivery implies a byte-identical file (DESIGN.md 4, C01).

Worlds: E2E-chaos (each direction is the set of PDU values ever sent: any member deliverable at any
time, any number of times, optionally bit-flipped; writes may be rejected; free time) and E2E-K
(FIFO, K counted faults incl. bit flips and write rejections, urgent time)."""
from __future__ import annotations

import itertools

from env import core, refcks
from env.e2e import E2EWorld
from xmc import NPROC
from xmc.engine import Violation, explore, explore_many
from xmc.report import Run

P = "C01"


def _success(rec) -> bool:
    return rec["cond"] == "NO_ERROR" and rec["deliv"] == "DATA_COMPLETE" and rec["fstat"] == "FILE_RETAINED"


class C01World(E2EWorld):
    prop = P
    name = "E2E-C01"
    link_default = "chaos"

    def _judge(self, st, who, what, file_hex, v):
        src = st.src_data
        data = None if file_hex is None else bytes.fromhex(file_hex)
        if data == src:
            return
        if data is not None and self.c["cks"] != "null" and refcks.REF[self.c["cks"]](data) == refcks.REF[self.c["cks"]](src):
            v.append(Violation(P, "C01.collision", f"{who} {what} reports success; file differs but has the same {self.c['cks']} checksum (genuine collision)",
                               who=who, what=what))
            return
        v.append(Violation(
            P, "C01.success_wrong_file",
            f"{who} {what} reports success (NO_ERROR, DATA_COMPLETE, FILE_RETAINED) but the destination file is "
            f"{'absent' if data is None else data.hex()} while the source file is {src.hex()}",
            who=who, what=what, file="absent" if data is None else ("short" if len(data) < len(src) else "long" if len(data) > len(src) else "corrupt"),
            mode=self.c["mode"]))

    def check(self, st, ev, obs):
        v = []
        c = self.c
        o = obs.get("D")
        if o:
            for r in o.get("ind", []):
                if r["ind"] == "finished" and _success(r):
                    self._judge(st, "receiver", "Transaction-Finished", r["file"], v)
            for d in o.get("out", []):
                if d["T"] == "FIN" and _success(d):
                    self._judge(st, "receiver", "Finished PDU", o.get("file_at_fin"), v)
        o = obs.get("S")
        if o and (core.eff_mode(c) == "ack" or core.eff_closure(c)):
            for r in o.get("ind", []):
                # at the sender the file status is hearsay; success = no error + data complete, file not reported discarded
                if r["ind"] == "finished" and r["cond"] == "NO_ERROR" and r["deliv"] == "DATA_COMPLETE" and not r["fstat"].startswith("DISCARDED"):
                    self._judge(st, "sender", "Transaction-Finished", r["file"], v)
        return v

    def outcome(self, st):
        return super().outcome(st)


def configs(tier):
    L = 2
    out = []

    def add(**kw):
        kw.setdefault("seg", L)
        out.append(kw)

    flips = ("flip", "reject")
    # unacknowledged: tiny graphs
    for closure, size, cks, cl in itertools.product((False, True), (0, 1, L, L + 1, 2 * L), ("crc32", "crc32c"), (1, 2)):
        add(link="chaos", mode="unack", closure=closure, size=size, cks=cks, check_limit=cl, kinds=flips)
    # acknowledged, limits 1
    if tier == "quick":
        for nak in ("imm", "def"):
            add(link="chaos", mode="ack", nak=nak, size=0, cks="crc32", ack_limit=1, nak_limit=1, kinds=flips)
        add(link="chaos", mode="ack", nak="imm", size=L, cks="crc32", ack_limit=1, nak_limit=1, kinds=flips)
        add(link="chaos", mode="ack", nak="def", size=L, cks="crc32c", ack_limit=1, nak_limit=1, kinds=("flip",))
        # null / modular checksum: loss, duplication, reordering only (acknowledged mode)
        add(link="chaos", mode="ack", nak="imm", size=0, cks="mod", ack_limit=1, nak_limit=1, kinds=())
        add(link="chaos", mode="ack", nak="def", size=0, cks="null", ack_limit=1, nak_limit=1, kinds=())
        add(link="chaos", mode="ack", nak="imm", size=L, cks="null", ack_limit=1, nak_limit=1, kinds=())
        add(link="chaos", mode="ack", nak="def", size=L, cks="mod", ack_limit=1, nak_limit=1, kinds=())
    else:
        sizes = (0, 1, L, L + 1, 2 * L)
        for nak, size, cks in itertools.product(("imm", "def"), sizes, ("crc32", "crc32c")):
            if nak == "imm" and size >= L + 1 and (cks == "crc32c") == (size == L + 1):
                continue  # the two-segment immediate-NAK graphs have 0.5M states each: one checksum type per size (crc32c for 2L, crc32 for L+1)
            add(link="chaos", mode="ack", nak=nak, size=size, cks=cks, ack_limit=1, nak_limit=1, kinds=flips)
        for nak, size, cks in itertools.product(("imm", "def"), sizes, ("null", "mod")):
            add(link="chaos", mode="ack", nak=nak, size=size, cks=cks, ack_limit=1, nak_limit=1, kinds=())
    # K-fault link with flips / rejections in the fault alphabet
    kmax = 2 if tier == "quick" else 3
    for K in range(1, kmax + 1):
        ksizes = (L + 1,) if K >= 2 and tier == "quick" else ((L, L + 1) if K == 3 else (0, L, L + 1, 2 * L))
        for nak, size in itertools.product(("imm", "def"), ksizes):
            add(link="k", K=K, mode="ack", nak=nak, size=size, ack_limit=K + 1, nak_limit=K + 1,
                kinds=("drop", "dup", "delay", "flip", "reject"))
        for closure, size in itertools.product((False, True), ksizes):
            add(link="k", K=K, mode="unack", closure=closure, size=size, check_limit=2,
                kinds=("drop", "dup", "delay", "flip", "reject"))
    # pre-existing (longer) destination file, also inside a destination directory: stale bytes must not survive a reported success
    for shape, nak in itertools.product(("existing", "dir_existing"), ("imm", "def")):
        add(link="k", K=1, mode="ack", nak=nak, size=L + 1, shape=shape, ack_limit=2, nak_limit=2, kinds=("drop", "dup", "delay"))
    for shape, closure in itertools.product(("existing", "dir_existing"), (False, True)):
        add(link="k", K=1, mode="unack", closure=closure, size=L + 1, shape=shape, check_limit=2, kinds=("drop", "dup", "delay"))
    # null / modular checksum on the K-fault link (loss, duplication, reordering only): 3 segments, so that a
    # forgotten gap between two received segments is reachable
    for cks, nak in itertools.product(("null", "mod"), ("def", "imm")):
        if tier == "quick" and (cks, nak) not in (("null", "def"), ("mod", "imm")):
            continue
        add(link="k", K=2, mode="ack", nak=nak, size=2 * L + 1, cks=cks, ack_limit=3, nak_limit=3, kinds=("drop", "dup", "delay"))
    # cancel request at either entity at any point, combined with link faults: a cancelled transfer never turns into a reported success
    for nak in ("imm", "def"):
        add(link="k", K=1, mode="ack", nak=nak, size=L + 1, ack_limit=2, nak_limit=2, kinds=("drop", "dup", "delay"), cancels=1)
    for closure in (False, True):
        add(link="k", K=1, mode="unack", closure=closure, size=L + 1, check_limit=2, kinds=("drop", "dup", "delay"), cancels=1)
    # the directory of the destination path does not exist: no file can be created, so no success may be reported (also with the null checksum)
    for cks, (mode, closure) in itertools.product(("null", "crc32"), (("ack", False), ("unack", True), ("unack", False))):
        add(link="k", K=1 if cks == "crc32" else 0, mode=mode, closure=closure, size=L + 1, cks=cks, shape="nodir", ack_limit=2, nak_limit=2, check_limit=2,
            kinds=("drop", "dup", "delay"))
    # two transactions; PDUs of the first (closed) one that are still in flight are also handed to the handler busy with the second
    # (a less protective entity than the default shell): a stale Finished PDU must not decide the second transaction
    for closure_mode in (dict(mode="unack", closure=True, check_limit=1), dict(mode="ack", nak="imm", closure=False, ack_limit=2, nak_limit=2)):
        # (duplication / delay only towards the sender: a stale Metadata PDU that re-opens the first transaction at the idle receiver and
        # truncates the file the second one delivered is the protocol's business, not the library's)
        add(link="k", K=3, size=L, cks="crc32", tx2=dict(), offer_stale=True, kinds=("dup", "delay", "flip"), fault_channels=("ds",), **closure_mode)
    # request-level mode / closure differing from the MIB defaults of the remote entity configuration
    add(link="k", K=1, mode="unack", closure=False, req_closure=True, size=L + 1, check_limit=2, kinds=("drop", "dup", "delay", "flip", "reject"))
    add(link="k", K=1, mode="unack", closure=False, req_mode="ack", size=L + 1, ack_limit=2, nak_limit=2, kinds=("drop", "dup", "delay", "flip", "reject"))
    add(link="k", K=1, mode="ack", closure=False, req_mode="unack", req_closure=True, size=L + 1, check_limit=2, kinds=("drop", "dup", "delay", "flip", "reject"))
    # fault handler overrides: a limit fault that is ignored must not turn missing data into a reported success
    add(link="chaos", mode="ack", nak="def", size=L + 1, cks="null", ack_limit=1, nak_limit=1, kinds=(), faults_d={"NAK_LIMIT_REACHED": "ignore"})
    add(link="chaos", mode="unack", closure=True, size=L + 1, cks="crc32", check_limit=1, kinds=flips, faults_d={"CHECK_LIMIT_REACHED": "ignore"})
    if tier == "thorough":
        for cks, nak in itertools.product(("null", "mod", "crc32"), ("imm", "def")):
            if (cks, nak) != ("null", "def"):
                add(link="chaos", mode="ack", nak=nak, size=L + 1, cks=cks, ack_limit=1, nak_limit=1, kinds=(), faults_d={"NAK_LIMIT_REACHED": "ignore"})
        add(link="chaos", mode="unack", closure=False, size=L + 1, cks="crc32c", check_limit=2, kinds=flips, faults_d={"CHECK_LIMIT_REACHED": "ignore"})
        for nak in ("imm", "def"):
            add(link="k", K=2, mode="ack", nak=nak, size=L + 1, ack_limit=3, nak_limit=3, kinds=("drop", "dup", "delay"), cancels=1)
            add(link="chaos", mode="ack", nak=nak, size=L + 1, cks="crc32", ack_limit=1, nak_limit=1, kinds=(), cancels=1)
        add(link="chaos", mode="unack", closure=True, size=L + 1, cks="crc32", check_limit=2, kinds=(), cancels=1)
        add(link="k", K=3, mode="ack", nak="imm", size=2 * L + 1, cks="null", ack_limit=4, nak_limit=4, kinds=("drop", "delay"))
        for nak in ("imm", "def"):
            add(link="chaos", mode="ack", nak=nak, size=L, ack_limit=2, nak_limit=2, kinds=flips)
    return out


def run(tier: str) -> int:
    run_ = Run(P, tier, assumptions=[
        "chaos link: every PDU value ever sent may be delivered at any time, any number of times (loss = never), File Data optionally with one payload bit flipped; any write may be rejected; timers may expire at any time",
        "expiration limits are 1 (2 where stated) so that the set of PDUs a transfer can emit, and hence the graph, is finite",
        "the entity shell discards / answers PDUs of transactions its handler already closed",
        "bit flips hit the File Data payload only (the property's fault model); header corruption is the PDU CRC's job",
    ])
    cfgs = configs(tier)
    worlds = [C01World(**kw) for kw in cfgs]
    small = [w for w in worlds if not (w.c["mode"] == "ack" and (w.link == "chaos" or w.K >= 2))]
    big = [w for w in worlds if w not in small]
    run_.bounds = {"segment_len": 2, "configs": len(worlds),
                   "chaos_acked_sizes": sorted({w.c["size"] for w in worlds if w.link == "chaos" and w.c["mode"] == "ack"}),
                   "K_fault_bounds": sorted({w.K for w in worlds if w.link == "k"})}
    kw = dict(check_cycles=False, validate_stride=997, n_samples=1, max_states=3_000_000, max_wall=(600 if tier == 'quick' else None))
    run_.add_all(explore_many(small, procs=NPROC, **kw))
    for w in big:
        if run_.found_something():
            run_.skip(w)  # verdict already decided; a defect can make the remaining graphs unboundedly large
            continue
        run_.add(explore(w, procs=NPROC, **kw))
    return run_.finish(rule="complete reachable graph per configuration; safety oracle evaluated inside every Transaction-Finished indication and at every emitted Finished PDU")
