"""C03 - acknowledged mode recovers from at most K dropped / duplicated / delayed / reordered PDUs
(DESIGN.md 4, C03).  World E2E-K: real handlers, FIFO link with K counted faults, urgent time,
all three expiration limits = K+1."""
from __future__ import annotations

import itertools

from env.e2e import E2EWorld
from xmc import NPROC
from xmc.engine import Violation, explore, explore_many
from xmc.report import Run

P = "C03"


class C03World(E2EWorld):
    prop = P
    name = "E2E-K"
    link_default = "k"

    def check(self, st, ev, obs):
        v = []
        for who in ("S", "D"):
            o = obs.get(who)
            if o and "exc" in o and not o["exc"]["protocol"]:
                e = o["exc"]
                v.append(Violation(P, "C03.exception", f"{who}: internal {e['exc']} escaped from {e['site']} while handling {obs.get('pdu', ev)}: {e['msg']}",
                                   who=who, exc=e["exc"], site=e["site"]))
        return v

    def terminal_check(self, st):
        why = self.success_goal(st)
        if why:
            return [Violation(P, "C03.terminal", f"after <= {self.K} link faults the transfer ended without successful completion: " + "; ".join(why),
                              why=why[0].split(" (")[0], S=st.S.h.states.step.name, D=st.D.h.states.step.name,
                              finS=st.fin["S"][:1], finD=st.fin["D"][:1])]
        return []

    def cycle_detail(self, evs):
        return {"events": sorted({f"{e[0]}:{e[1]}" for e in evs if len(e) > 1})}


def configs(tier):
    L = 4
    out = []
    if tier == "quick":
        plan = [(0, (0, 1, L, L + 1, 2 * L + 1)), (1, (0, 1, L, L + 1, 2 * L + 1)), (2, (0, L, L + 1))]
    else:
        plan = [(0, (0, 1, L, L + 1, 2 * L + 1)), (1, (0, 1, L, L + 1, 2 * L, 2 * L + 1)), (2, (0, 1, L, L + 1, 2 * L + 1)), (3, (0, L, L + 1))]
    import os
    if os.environ.get("XMC_MAXK"):  # development aid: restrict the fault bound
        plan = [(k, s) for k, s in plan if k <= int(os.environ["XMC_MAXK"])]
    for K, sizes in plan:
        for size, nak, closure in itertools.product(sizes, ("imm", "def"), (False, True)):
            out.append(dict(mode="ack", K=K, size=size, seg=L, nak=nak, closure=closure, ack_limit=K + 1, nak_limit=K + 1,
                            check_limit=K + 1, link="k"))
    # destination file already exists (longer) / destination given as a directory holding such a file
    for K, shape, nak in itertools.product((1, 2) if tier == "thorough" else (1,), ("existing", "dir_existing"), ("imm", "def")):
        out.append(dict(mode="ack", K=K, size=L + 1, seg=L, nak=nak, closure=False, shape=shape, ack_limit=K + 1, nak_limit=K + 1,
                        check_limit=K + 1, link="k"))
    # two consecutive transactions on the same pair of handlers; the K faults may fall into either
    for K, nak in itertools.product((1, 2), ("imm", "def")):
        out.append(dict(mode="ack", K=K, size=2 * L + 1 if K == 2 else L + 1, seg=L, nak=nak, closure=False, ack_limit=K + 1, nak_limit=K + 1,
                        check_limit=K + 1, link="k", tx2=dict(req_mode="ack", req_closure=False)))
    # an unacknowledged transfer with closure first (fault-free), then an acknowledged one on the same handlers which takes the faults
    for K, nak in itertools.product((1, 2) if tier == "thorough" else (1,), ("imm", "def")):
        out.append(dict(mode="unack", closure=True, K=K, size=L + 1, seg=L, nak=nak, ack_limit=K + 1, nak_limit=K + 1, check_limit=K + 1, link="k",
                        tx2=dict(req_mode="ack", req_closure=False), faults_from_tx=2))
    # acknowledged mode requested by the put request while the MIB default of the remote entity is unacknowledged
    for K, nak in itertools.product((1, 2) if tier == "thorough" else (1,), ("imm", "def")):
        out.append(dict(mode="unack", req_mode="ack", K=K, size=L + 1, seg=L, nak=nak, closure=False, ack_limit=K + 1, nak_limit=K + 1,
                        check_limit=K + 1, link="k"))
    # receiver max_packet_len so small that a NAK PDU holds a single segment request: multi-PDU NAK sequences on the lossy link
    for K, nak, size in itertools.product((1, 2) if tier == "thorough" else (1,), ("imm", "def"), (L + 1, 2 * L + 1)):
        if tier == "quick" and (nak, size) == ("imm", L + 1):
            continue
        out.append(dict(mode="ack", K=K, size=size, seg=L, nak=nak, closure=False, mpl=27, ack_limit=K + 1, nak_limit=K + 1,
                        check_limit=K + 1, link="k"))
    return out


def run(tier: str) -> int:
    run_ = Run(P, tier, assumptions=[
        "at most K PDUs dropped, duplicated, or delayed (a delayed PDU is held back while time passes and released at any later point, i.e. arbitrarily late and reordered); K < every expiration limit",
        "urgent time: a timer fires only when no PDU is deliverable and state-machine calls are no-ops (a timer firing earlier is a delay and is counted as one)",
        "independent clocks per entity",
        "the entity shell answers PDUs of transactions its handler already closed (ACK(EOF) with status TERMINATED, ACK(Finished)) and drains the outbound queue after every call",
    ])
    cfgs = configs(tier)
    small = [C03World(**kw) for kw in cfgs if kw["K"] <= 1]
    big = [C03World(**kw) for kw in cfgs if kw["K"] >= 2]
    run_.bounds = {"K": sorted({kw["K"] for kw in cfgs}), "segment_len": 4,
                   "sizes_by_K": {str(k): sorted({kw["size"] for kw in cfgs if kw["K"] == k}) for k in sorted({kw["K"] for kw in cfgs})},
                   "nak_modes": ["imm", "def"], "closure": [False, True], "limits": "K+1"}
    kw = dict(cycle_clause=(P, "C03.cycle"), validate_stride=499, n_samples=1, max_states=1_500_000, max_wall=(600 if tier == 'quick' else None))
    run_.add_all(explore_many(small, procs=NPROC, **kw))
    for w in big:
        if run_.found_something():
            run_.skip(w)  # verdict already decided; a defect can make the remaining graphs unboundedly large
            continue
        run_.add(explore(w, procs=NPROC, **kw))
    return run_.finish(rule="complete reachable graph per configuration: every placement of <=K drop/dup/delay faults on every PDU in either direction x every interleaving; terminal states classified, non-progress cycles searched")
