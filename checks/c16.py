"""C16 - all file access goes through the user-supplied virtual filestore (DESIGN.md 4, C16).

Differential world: system N (real handlers on the NativeFilestore, files under <sandbox>/N) and
system M (real handlers on an in-memory VirtualFilestore; the process sits in the empty directory
<sandbox>/M, so none of its paths exists on the host) are stepped in lock-step through the E2E
graphs (fault-free, single faults, cancel requests).  Observations must be identical, an audit layer
must see no host file-system access during M's handler calls and <sandbox>/M must stay empty."""
from __future__ import annotations

import itertools
import os

from env import core
from env.e2e import E2EWorld
from env.memfs import AUDIT, MemFilestore
from xmc import NPROC, sandbox
from xmc.engine import Violation, World, explore_many
from xmc.report import Run

P = "C16"


class MemProbe:
    def __init__(self, vfs, path):
        self.vfs = vfs
        self.path = path

    def __call__(self, kind, rec):
        if kind == "finished":
            data = self.vfs.get(self.path)
            return {"file": None if data is None else data.hex()}
        return None


class NativeSys(E2EWorld):
    name = "E2E-native"


class MemSys(E2EWorld):
    name = "E2E-mem"

    def make_vfs(self, which):
        return MemFilestore()

    def prepare(self, c, vs, vd):
        return core.prepare_files(c, vs, vd)

    def make_probe(self, st):
        return MemProbe(st.D.user.vfs, self.dest_path)

    def rewrite_source(self, st, data):
        st.S.user.vfs.put(core.SRC_PATH, data)

    def read_dest(self, st):
        return st.D.user.vfs.get(self.dest_path)

    def enabled(self, st):  # pragma: no cover - the pair world uses the native system's menu
        return super().enabled(st)


class _Pair:
    pass


def scrub(o):
    """Observations that legitimately differ: nothing. (kept for symmetry / future use)"""
    return o


class C16World(World):
    prop = P
    name = "E2E-pair"

    def __init__(self, **cfg):
        super().__init__(**cfg)
        self.n = NativeSys(**cfg)
        self.m = MemSys(**cfg)
        self.timing = self.n.timing

    def build(self):
        root = sandbox.root()
        st = _Pair()
        os.makedirs("N", exist_ok=True)
        os.makedirs("M", exist_ok=True)
        os.chdir(os.path.join(root, "N"))
        st.n = self.n.build()
        os.chdir(os.path.join(root, "M"))
        st.m = self.m.build()
        os.chdir(root)
        st.diverged = False
        return st

    def consts(self, st):
        return self.n.consts(st.n) + self.m.consts(st.m)

    def enabled(self, st):
        if st.diverged:
            return []
        return self.n.enabled(st.n)

    def is_late(self, ev):
        return self.n.is_late(ev)

    def is_free(self, ev):
        return self.n.is_free(ev)

    def apply(self, st, ev):
        root = sandbox.root()
        out = {}
        os.chdir(os.path.join(root, "N"))
        try:
            out["N"] = self.n.apply(st.n, ev)
        finally:
            os.chdir(root)
        os.chdir(os.path.join(root, "M"))
        AUDIT.arm(root)
        try:
            try:
                out["M"] = self.m.apply(st.m, ev)
            except Exception as ex:  # noqa: BLE001 - e.g. the menu of N is not applicable to M any more
                out["M"] = {"harness_exc": f"{type(ex).__name__}: {ex}"}
        finally:
            hits = AUDIT.disarm()
            os.chdir(root)
        if hits:
            out["host_access"] = sorted(set(hits))[:6]
        sandbox.invalidate()
        stray = [p for p, k, c in sandbox.tree() if p.startswith("M/")]
        if stray:
            out["stray"] = stray
        if out["N"] != out["M"]:
            st.diverged = True
        return out

    def quiet(self, obs):
        return self.n.quiet(obs.get("N", {})) and self.m.quiet(obs.get("M", {})) and "host_access" not in obs

    def check(self, st, ev, out):
        v = []
        if "host_access" in out:
            kinds = sorted({e for e, _ in out["host_access"]})
            v.append(Violation(P, "C16.host_access", f"{ev}: handler code touched the host file system behind the virtual filestore: {out['host_access']}",
                               kinds=kinds[:3], who=ev[1] if len(ev) > 1 else None))
        if "stray" in out:
            v.append(Violation(P, "C16.host_modified", f"{ev}: files appeared on the host although the in-memory filestore is used: {out['stray']}"))
        if out["N"] != out["M"]:
            keys = sorted(k for k in set(out["N"]) | set(out["M"]) if out["N"].get(k) != out["M"].get(k))
            v.append(Violation(P, "C16.differs", f"{ev}: transfer over the in-memory filestore behaves differently from the native one: "
                                                 f"native {str(out['N'])[:400]} vs in-memory {str(out['M'])[:400]}", keys=keys[:3], ev=ev[0]))
        return v

    def terminal_check(self, st):
        root = sandbox.root()
        os.chdir(os.path.join(root, "N"))
        try:
            why = self.n.success_goal(st.n) if not self.cfg.get("cancels") and self.n.link == "ff" and self.cfg.get("shape") not in ("nodir", "dir_dir") else []
        finally:
            os.chdir(root)
        if why:
            return [Violation(P, "C16.native_incomplete", "reference run on the native filestore did not complete: " + "; ".join(why))]
        return []

    def outcome(self, st):
        root = sandbox.root()
        os.chdir(os.path.join(root, "N"))
        try:
            return self.n.outcome(st.n)
        finally:
            os.chdir(root)


def configs(tier):
    out = []
    L = 3

    def add(**kw):
        kw.setdefault("seg", L)
        out.append(kw)

    for mode, closure, size, shape in itertools.product(("ack", "unack"), (False, True), (0, 1, L + 1, 2 * L + 1), ("new", "existing", "dir", "dir_existing")):
        if tier == "quick" and shape != "new" and size not in (L + 1,):
            continue
        add(mode=mode, closure=closure, size=size, shape=shape, link="ff")
    # destinations that cannot be created: missing directory, a directory in the way
    for shape, mode in itertools.product(("nodir", "dir_dir"), ("ack", "unack")):
        add(mode=mode, closure=True, size=L + 1, shape=shape, link="ff")
    for cks, mode in itertools.product(("crc32", "crc32c", "mod", "null"), ("ack", "unack")):
        add(cks=cks, mode=mode, closure=True, size=L + 1, link="ff")
    for mode, closure in itertools.product(("ack", "unack"), (False, True)):
        add(md_only=True, mode=mode, closure=closure, size=0, link="ff")
    # single faults: retransmission paths, check-limit paths
    for nak, size in itertools.product(("imm", "def"), (L + 1,)):
        add(mode="ack", nak=nak, size=size, link="k", K=1, kinds=("drop", "dup", "delay"), ack_limit=2, nak_limit=2)
    add(mode="unack", closure=True, size=L + 1, link="k", K=1, kinds=("drop", "delay"), check_limit=2)
    # cancel requests at every point (cancel-time checksum, disposition)
    for mode, disp, cks in itertools.product(("ack", "unack"), (False, True), ("crc32", "mod")):
        add(mode=mode, closure=True, size=2 * L + 1, link="ff", cancels=1, disposition=disp, cks=cks)
    # a refused write (after the file was created): both filestores refuse the same write call
    add(mode="ack", nak="imm", size=2 * L + 1, link="k", K=1, kinds=("reject", "dup"), ack_limit=2, nak_limit=2)
    add(mode="unack", closure=True, size=2 * L + 1, link="k", K=1, kinds=("reject", "dup"), check_limit=2)
    # fault handler codes other than the defaults (abandon / ignore) on the paths that declare faults
    for code in ("abandon", "ignore"):
        add(mode="unack", closure=True, size=2 * L + 1, link="k", K=1, kinds=("drop",), check_limit=1, faults_d={"FILE_CHECKSUM_FAILURE": code, "CHECK_LIMIT_REACHED": code})
        add(mode="ack", nak="imm", size=L + 1, link="k", K=2, kinds=("drop",), ack_limit=2, nak_limit=1, faults_d={"NAK_LIMIT_REACHED": code})
    add(mode="ack", nak="def", size=L + 1, link="k", K=1, kinds=("drop",), ack_limit=1, nak_limit=2, faults_d={"POSITIVE_ACK_LIMIT_REACHED": "abandon"},
        faults_s={"POSITIVE_ACK_LIMIT_REACHED": "abandon"})
    if tier == "thorough":
        add(mode="ack", nak="imm", size=2 * L + 1, link="k", K=2, kinds=("drop", "dup", "delay"), ack_limit=3, nak_limit=3)
        for mode in ("ack", "unack"):
            add(mode=mode, closure=True, size=L + 1, link="k", K=1, kinds=("drop",), cancels=1, ack_limit=2, nak_limit=2)
    return out


def run(tier: str) -> int:
    run_ = Run(P, tier, assumptions=[
        "the in-memory filestore implements the documented VirtualFilestore interface; its checksums come from the harness's reference implementations",
        "host access = audit events open / remove / rename / mkdir / rmdir / truncate / scandir / listdir / ... and os.stat / lstat / access on a relative path or a path inside the sandbox, while a handler call of the in-memory system is on the stack",
    ])
    cfgs = configs(tier)
    worlds = [C16World(**kw) for kw in cfgs]
    run_.bounds = {"configs": len(worlds), "links": ["ff", "k (K=1)", "ff + cancel requests"], "segment_len": 3}
    results = explore_many(worlds, procs=NPROC, check_cycles=False, validate_stride=499, validate_terminals=3, n_samples=1, max_states=1_000_000)
    run_.add_all(results)
    return run_.finish(rule="complete reachable graph per configuration of the two systems in lock-step (all interleavings / single faults / cancel points); observations compared step by step")
