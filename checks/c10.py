"""C10 - handlers fail only with protocol exceptions and only when the caller is at fault
(DESIGN.md 4, C10).

Worlds SRC and DST with the widest alphabet: all nine PDU shapes with right / wrong direction, ids,
sequence number and mode, content variants, put / cancel requests, timer expiry, and *partial
draining* (the outbound queue is emptied one PDU at a time by an explicit event)."""
from __future__ import annotations

import itertools

from env import core
from env.dst import DstWorld
from env.src import SrcWorld
from xmc import NPROC, canon, clock, sandbox
from xmc.engine import Violation, explore
from xmc.report import Run

P = "C10"
ADMISSION = ("InvalidPduDirection", "InvalidSourceId", "InvalidDestinationId", "InvalidTransactionSeqNum", "InvalidPduForSourceHandler",
             "InvalidPduForDestHandler", "PduIgnoredForSource", "PduIgnoredForDest", "NoRemoteEntityCfgFound")


def T(**kw):
    return tuple(sorted(kw.items()))


def hkey(h):
    return canon.canon_str(h.states, h._params, list(h._pdus_to_be_sent), getattr(h, "_put_req", None), sandbox.tree())


class LeakMixin:
    side = "?"

    def judge(self, st, ev, out, ent_key):
        v = []
        e = out.get(ent_key, {}).get("exc")

        def bad(clause, msg, **d):
            v.append(Violation(P, clause, f"{self.side} {ev} ({out['pre_step']} -> {out['post_step']}, {out['queued']} PDUs queued on entry): {msg}",
                               side=self.side, **d))

        h = getattr(st, ent_key).h
        if h.num_packets_ready != len(h._pdus_to_be_sent):
            # the caller learns from packets_ready / num_packets_ready whether it has to retrieve PDUs: a counter that disagrees with the
            # queue makes the next 'unretrieved PDUs' error (or a retrieval that yields nothing) the library's fault, not the caller's
            bad("C10.packet_counter", f"num_packets_ready is {h.num_packets_ready} but {len(h._pdus_to_be_sent)} PDUs are queued", ev=ev[0])
        abandoned = any(f["fault"] == "abandon" for f in out.get(ent_key, {}).get("faults", []))
        if ev[0] != "get" and len(h._pdus_to_be_sent) < out["queued"] and not abandoned:
            # a PDU that was generated but not fetched yet does not vanish (only abandoning a transaction drops what it has queued)
            bad("C10.queued_pdu_lost", f"{out['queued']} PDUs were queued on entry, {len(h._pdus_to_be_sent)} are queued now although none was fetched", ev=ev[0])
        if not e:
            return v
        if not e["protocol"]:
            bad("C10.leak", f"internal {e['exc']} escaped from {e['site']}: {e['msg']}", exc=e["exc"], site=e["site"])
            return v
        if e["exc"] == "UnretrievedPdusToBeSent" and out["queued"] == 0:
            bad("C10.unretrieved_spurious", f"UnretrievedPdusToBeSent raised in {e['site']} although the outbound queue was empty when the call was made", site=e["site"])
        if e["exc"] in ADMISSION and ev[0] in ("pdu", "md", "fd", "eof", "ackfin", "ackeof", "fin", "nak", "prompt") and not out["unchanged"]:
            bad("C10.rejected_pdu_changed_state", f"PDU refused with {e['exc']} but handler state / queue / filestore changed", exc=e["exc"])
        return v


class C10Dst(DstWorld, LeakMixin):
    prop = P
    name = "DST-C10"
    side = "receiver"

    def __init__(self, **cfg):
        super().__init__(**cfg)
        c = self.c
        size = c["size"]
        other_mode = "unack" if c["mode"] == "ack" else "ack"
        A = [("md",), ("tick",), ("get",), ("expire",), ("cancel", "right"), ("cancel", "wrong"),
             ("fd", 0, 2, 0), ("fd", 2, 2, 0), ("fd", 1, 2, 2), ("fd", size + 2, 1, 3), ("fd", 2, 0, 0),
             ("eof", size, "NO_ERROR", 1), ("eof", size, "NO_ERROR", 0), ("eof", 2, "CANCEL_REQUEST_RECEIVED", 1), ("eof", 0, "NO_ERROR", 1),
             ("ackfin",), ("prompt",),
             ("pdu", "KA", None), ("pdu", "NAK", None), ("pdu", "FIN", None), ("pdu", "ACKE", None),
             ("pdu", "FD", "S"), ("pdu", "MD", "S"), ("pdu", "EOF", "S"), ("pdu", "ACKF", "S"), ("pdu", "FIN", "R"), ("pdu", "NAK", "R"),
             ("pdu", "FD", None, T(dst=(9, 2))), ("pdu", "MD", None, T(src=(8, 2))), ("pdu", "EOF", None, T(seq=(5, 2))),
             ("pdu", "FD", None, T(mode=other_mode)), ("pdu", "MD", None, T(mode=other_mode)), ("pdu", "EOF", None, T(mode=other_mode, size=size)),
             ("pdu", "ACKF", None, T(mode=other_mode)), ("pdu", "PROMPT", None, T(mode=other_mode))]
        if cfg.get("variant") == "late":
            # explored from a late state (see 'prefix'): retry procedures, duplicates and cancels around them
            A = [("tick",), ("get",), ("expire",), ("advance",), ("cancel", "right"), ("ackfin",), ("md",),
                 ("fd", 0, 2, 0), ("fd", 2, 2, 0), ("fd", size + 1, 1, 3), ("eof", size, "NO_ERROR", 1), ("eof", 2, "CANCEL_REQUEST_RECEIVED", 1),
                 ("prompt",), ("pdu", "ACKF", None, T(mode=other_mode)), ("pdu", "EOF", None, T(seq=(5, 2)))]
        if cfg.get("variant") == "names":
            # Metadata PDUs whose destination file name is unusual but well-formed (any octet string is a valid LV value)
            names = ("out/a\x00b", "out", "out/", "nodir/x", ".", "..", "out/../out/dst.bin", "/", " ")
            A = [("pdu", "MD", None, T(dname=n, size=size)) for n in names] + \
                [("pdu", "MD", None, T(dname=None, size=size)), ("pdu", "MD", None, T(sname=None, size=size)), ("pdu", "MD", None, T(sname=None, dname=None, size=0))] + \
                [("tick",), ("get",), ("fd", 0, 2, 0), ("eof", size, "NO_ERROR", 1), ("cancel", "right"), ("expire",)]
        if cfg.get("variant") == "fd":
            # File Data at every offset / small length (retransmissions, overlaps, straddles), Metadata, EOF
            A = [("md",), ("tick",), ("get",), ("expire",), ("eof", size, "NO_ERROR", 1), ("eof", size - 1, "NO_ERROR", 1)]
            A += [("fd", off, ln, 0) for off in range(0, size + 2) for ln in (1, 2, 3)]
        self.alphabet = A

    def build(self):
        st = super().build()
        for e in self.cfg.get("prefix", ()):  # reach a late state first (queue drained completely on the way)
            DstWorld.apply(self, st, tuple(e))
        st.D.autodrain = False
        return st

    def enabled(self, st):
        evs = []
        for e in self.alphabet:
            if e[0] in ("expire", "advance"):
                if clock.next_expiry(st.D.h) is not None:
                    evs.append(e)
            elif e[0] == "get":
                if st.D.h.packets_ready:
                    evs.append(e)
            else:
                evs.append(e)
        return evs

    def apply(self, st, ev):
        if ev[0] == "get":
            out = {"pre_step": st.D.h.states.step.name, "queued": st.D.h.num_packets_ready}
            m = st.D.get_one()
            out["got"] = None if m is None else m.d["T"]
            out["post_step"] = st.D.h.states.step.name
            out["unchanged"] = False
            return out
        k0 = hkey(st.D.h)
        q = len(st.D.h._pdus_to_be_sent)
        out = super().apply(st, ev)
        sandbox.invalidate()
        out["unchanged"] = hkey(st.D.h) == k0
        out["queued"] = q
        return out

    def quiet(self, obs):
        return "D" not in obs and "got" not in obs and obs.get("pre_step") == obs.get("post_step") and "ret" not in obs and "fs" not in obs

    def check(self, st, ev, out):
        return self.judge(st, ev, out, "D")


class C10Src(SrcWorld, LeakMixin):
    prop = P
    name = "SRC-C10"
    side = "sender"
    autoput = False

    def __init__(self, **cfg):
        super().__init__(**cfg)
        c = self.c
        size = c["size"]
        other_mode = "unack" if c["mode"] == "ack" else "ack"
        A = [("put", "valid"), ("put", "empty"), ("put", "mdonly"), ("put", "missing"), ("put", "unknown"),
             ("tick",), ("get",), ("expire",), ("cancel", "right"), ("cancel", "wrong"),
             ("ackeof",), ("ackeof", "CANCEL_REQUEST_RECEIVED"), ("fin", "NO_ERROR", "DATA_COMPLETE", "FILE_RETAINED"),
             ("fin", "FILE_CHECKSUM_FAILURE", "DATA_INCOMPLETE", "FILE_RETAINED"),
             ("nak", ((0, 0),)), ("nak", ((0, 2),)), ("nak", ((2, 1),)), ("nak", ((0, size + 4),)), ("nak", ((0, 1), (1, 2))), ("nak", ()),
             ("pdu", "KA", None), ("pdu", "ACKF", None), ("pdu", "MD", None), ("pdu", "EOF", None), ("pdu", "FD", None), ("pdu", "PROMPT", None),
             ("pdu", "FIN", "R"), ("pdu", "NAK", "R"), ("pdu", "ACKE", "R"), ("pdu", "FD", "S"), ("pdu", "MD", "S"), ("pdu", "ACKF", "S"),
             ("pdu", "FIN", None, T(src=(9, 2))), ("pdu", "ACKE", None, T(dst=(8, 2))), ("pdu", "NAK", None, T(seq=(6, 2))),
             ("pdu", "FIN", None, T(mode=other_mode)), ("pdu", "NAK", None, T(mode=other_mode)), ("pdu", "KA", None, T(mode=other_mode))]
        if cfg.get("variant") == "late":
            A = [("tick",), ("get",), ("expire",), ("advance",), ("cancel", "right"), ("ackeof",), ("ackeof", "CANCEL_REQUEST_RECEIVED"),
                 ("fin", "NO_ERROR", "DATA_COMPLETE", "FILE_RETAINED"), ("fin", "CANCEL_REQUEST_RECEIVED", "DATA_INCOMPLETE", "FILE_RETAINED"),
                 ("nak", ((0, 0),)), ("nak", ((0, 2),)), ("nak", ((2, size),)), ("nak", ((0, size + 1),)), ("pdu", "KA", None), ("pdu", "ACKF", "S"),
                 ("put", "valid")]
        self.alphabet = A

    def build(self):
        st = super().build()
        for e in self.cfg.get("prefix", ()):
            out = SrcWorld.apply(self, st, tuple(e))
        st.S.autodrain = False
        return st

    def enabled(self, st):
        evs = []
        for e in self.alphabet:
            if e[0] in ("expire", "advance"):
                if clock.next_expiry(st.S.h) is not None:
                    evs.append(e)
            elif e[0] == "get":
                if st.S.h.packets_ready:
                    evs.append(e)
            elif e[0] == "put":
                if st.nput < 2:
                    evs.append(e)
            else:
                evs.append(e)
        return evs

    def apply(self, st, ev):
        if ev[0] == "get":
            out = {"pre_step": st.S.h.states.step.name, "queued": st.S.h.num_packets_ready}
            m = st.S.get_one()
            out["got"] = None if m is None else m.d["T"]
            if m is not None:
                d = m.d
                st.peer = {"src": d["src"], "dst": d["dst"], "seq": d["seq"], "mode": "ack" if d["mode"] == "ACKNOWLEDGED" else "unack",
                           "crc": d["crc"] == "WITH_CRC"}
            out["post_step"] = st.S.h.states.step.name
            out["unchanged"] = False
            return out
        k0 = hkey(st.S.h)
        q = len(st.S.h._pdus_to_be_sent)
        out = super().apply(st, ev)
        out["unchanged"] = hkey(st.S.h) == k0
        out["queued"] = q
        return out

    def quiet(self, obs):
        return "S" not in obs and "got" not in obs and obs.get("pre_step") == obs.get("post_step") and "ret" not in obs

    def check(self, st, ev, out):
        return self.judge(st, ev, out, "S")


def run(tier: str) -> int:
    run_ = Run(P, tier, assumptions=[
        "well-formed PDUs only (built through the spacepackets constructors); default fault handlers (other handler codes are C14's subject)",
        "protocol exceptions = the classes defined in cfdppy.exceptions",
        "admission exceptions: direction / source id / destination id / sequence number / wrong handler / ignored in this mode or step / unknown remote entity",
    ])
    depth = 5 if tier == "quick" else 7
    worlds = []
    for mode, nak in (("ack", "imm"), ("ack", "def"), ("unack", "imm")):
        worlds.append(C10Dst(mode=mode, nak=nak, closure=True, size=4, seg=2, ack_limit=2, nak_limit=2, check_limit=2))
    for nak in ("imm", "def"):
        worlds.append(C10Dst(mode="ack", nak=nak, closure=False, size=5, seg=2, ack_limit=2, nak_limit=2, variant="fd"))
    for mode in ("ack", "unack"):
        worlds.append(C10Dst(mode=mode, nak="imm", closure=True, size=2, seg=2, ack_limit=2, nak_limit=2, check_limit=2, variant="names"))
    # the destination directory holds a directory with the source file's base name: the file can be neither created nor truncated
    for mode in ("ack", "unack"):
        worlds.append(C10Dst(mode=mode, nak="imm", closure=True, size=4, seg=2, ack_limit=2, nak_limit=2, check_limit=2, shape="dir_dir"))
    # late states: receiver awaiting the ACK of its Finished PDU / awaiting missing data; sender awaiting the EOF ACK / the Finished PDU
    fin_wait = [("md",), ("fd", 0, 2, 0), ("fd", 2, 2, 0), ("eof", 4, "NO_ERROR", 1), ("tick",), ("tick",)]
    miss_wait = [("md",), ("fd", 2, 2, 0), ("eof", 4, "NO_ERROR", 1), ("tick",)]
    for nak, prefix in (("imm", fin_wait), ("def", miss_wait), ("imm", miss_wait)):
        worlds.append(C10Dst(mode="ack", nak=nak, closure=False, size=4, seg=2, ack_limit=2, nak_limit=2, variant="late", prefix=prefix))
    worlds.append(C10Dst(mode="unack", closure=True, size=4, seg=2, check_limit=2, variant="late", prefix=[("md",), ("fd", 2, 2, 0), ("eof", 4, "NO_ERROR", 1)]))
    eof_wait = [("put", "valid"), ("tick",), ("tick",), ("tick",), ("tick",)]
    worlds.append(C10Src(mode="ack", closure=False, size=4, seg=2, ack_limit=2, variant="late", prefix=eof_wait))
    worlds.append(C10Src(mode="ack", closure=False, size=4, seg=2, ack_limit=2, variant="late", prefix=eof_wait + [("ackeof",)]))
    worlds.append(C10Src(mode="unack", closure=True, size=4, seg=2, variant="late", prefix=eof_wait))
    for mode in ("ack", "unack"):
        worlds.append(C10Src(mode=mode, closure=True, size=4, seg=2, ack_limit=2))
    # modular checksum over all-ones content of 5 bytes: the word sum passes 2^32 when the zero-padded tail is added, so an arithmetic
    # error in the checksum (struct.error / OverflowError) would leave the state machine as a non-protocol exception
    for mode in ("ack", "unack"):
        worlds.append(C10Dst(mode=mode, nak="imm", closure=False, size=5, seg=2, cks="mod", zero="ff", ack_limit=2, nak_limit=2, check_limit=2, variant="fd"))
        worlds.append(C10Src(mode=mode, closure=True, size=5, seg=4, cks="mod", zero="ff", ack_limit=2, variant="late", prefix=[("put", "valid"), ("tick",)]))
    run_.bounds = {"depth": depth, "depth_from_late_states": depth + 3, "alphabet_sizes": [len(w.alphabet) for w in worlds]}
    for w in worlds:
        if run_.found_something():
            run_.skip(w)
            continue
        r = explore(w, procs=NPROC, check_cycles=False, max_depth=depth + (3 if w.cfg.get('variant') == 'late' else 0), validate_stride=4999, validate_terminals=3, n_samples=1, max_states=3_000_000, max_wall=(600 if tier == 'quick' else None))
        run_.add(r)
    run_.cap_hit = False
    run_.extra["depth_bound"] = depth
    return run_.finish(exhaustive=True, rule=f"all event sequences shorter than {depth + 1} over the alphabet from the idle handler (every reachable step is visited on the way), deduplicated by canonical state")
