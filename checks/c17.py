"""C17 - native filestore operations match a reference file-system model (DESIGN.md 4, C17).

World FS: the real NativeFilestore on the sandbox; BFS over operation sequences, state = canonical
sandbox tree.  The reference model is a dict tree in the harness; every operation is compared with
the model's answer computed from the same pre-state (step-wise agreement on every reachable tree)."""
from __future__ import annotations

from pathlib import Path

from spacepackets.cfdp.tlv import FilestoreResponseStatusCode as RC

from cfdppy.filestore import NativeFilestore
from xmc import NPROC, sandbox
from xmc.engine import Violation, World, explore
from xmc.report import Run

P = "C17"
FAMILY = {"create_file": 0, "delete_file": 1, "rename_file": 2, "replace_file": 4, "create_directory": 5, "remove_directory": 6}
PATHS = ("a", "b", "d", "d/a")
WRITES = (("", None), ("x", None), ("xyz", 0), ("yz", 1), ("x", 4))  # payloads as str: events must survive JSON (replay files)
READS = ((None, 9), (0, 0), (0, 2), (1, 2), (5, 2))


class _S:
    pass


def model_of(tree):
    """tree: sandbox tuple -> dict path -> None (dir) | bytes (file)."""
    return {p: (None if k == "d" else c) for p, k, c in tree}


def parent_ok(m, p):
    if "/" not in p:
        return True
    par = p.rsplit("/", 1)[0]
    return par in m and m[par] is None


def is_dir(m, p):
    return p in m and m[p] is None


def children(m, p):
    return [q for q in m if q.startswith(p + "/")]


def expect(m, op):
    """Returns (kind, value, new_model). kind: 'code' (exact status name), 'codes' (set of admissible
    refusal names), 'ret' (exact return value), 'raise' (must raise one of the documented OS errors, tree
    unchanged), 'any_fail' (refusal code of own family or documented OS error; tree unchanged)."""
    name = op[0]
    new = dict(m)
    if name == "create_file":
        p = op[1]
        if p in m:
            return "code", "CREATE_NOT_ALLOWED", m
        if not parent_ok(m, p):
            return "code", "CREATE_NOT_ALLOWED", m
        new[p] = b""
        return "code", "SUCCESS", new
    if name == "delete_file":
        p = op[1]
        if p not in m:
            return "code", "DELETE_FILE_DOES_NOT_EXIST", m
        if is_dir(m, p):
            return "code", "DELETE_NOT_ALLOWED", m
        del new[p]
        return "code", "DELETE_SUCCESS", new
    if name == "rename_file":
        old, nw = op[1], op[2]
        if is_dir(m, old) or is_dir(m, nw):
            return "codes", {"RENAME_NOT_PERFORMED", "RENAME_NOT_ALLOWED"}, m
        if old not in m:
            return "code", "RENAME_OLD_FILE_DOES_NOT_EXIST", m
        if nw in m:
            return "code", "RENAME_NEW_FILE_DOES_EXIST", m
        if not parent_ok(m, nw):
            return "any_fail", None, m
        new[nw] = new.pop(old)
        return "code", "RENAME_SUCCESS", new
    if name == "replace_file":
        rep, src = op[1], op[2]
        if is_dir(m, rep) or is_dir(m, src):
            return "codes", {"REPLACE_NOT_ALLOWED", "REPLACE_NOT_PERFORMED"}, m
        if rep not in m:
            return "code", "REPLACE_FILE_NAME_ONE_TO_BE_REPLACED_DOES_NOT_EXIST", m
        if src not in m:
            return "code", "REPLACE_FILE_NAME_TWO_REPLACE_SOURCE_NOT_EXIST", m
        if rep != src:
            new[rep] = new.pop(src)
        return "code", "REPLACE_SUCCESS", new
    if name == "create_directory":
        p = op[1]
        if p in m:
            return "code", "CREATE_DIR_CAN_NOT_BE_CREATED", m
        if not parent_ok(m, p):
            return "any_fail", None, m
        new[p] = None
        return "code", "CREATE_DIR_SUCCESS", new
    if name == "remove_directory":
        p, rec = op[1], op[2]
        if p not in m:
            return "code", "REMOVE_DIR_DOES_NOT_EXIST", m
        if not is_dir(m, p):
            return "code", "REMOVE_DIR_NOT_ALLOWED", m
        kids = children(m, p)
        if kids and not rec:
            return "codes", {"REMOVE_DIR_NOT_ALLOWED", "REMOVE_DIR_NOT_PERFORMED"}, m
        for q in kids:
            del new[q]
        del new[p]
        return "code", "REMOVE_DIR_SUCCESS", new
    if name == "truncate_file":
        p = op[1]
        if p not in m or is_dir(m, p):
            return "raise", None, m
        new[p] = b""
        return "ret", None, new
    if name == "write_data":
        p, data, off = op[1], op[2].encode("latin-1"), op[3]
        if p not in m or is_dir(m, p):
            return "raise", None, m
        cur = m[p]
        o = 0 if off is None else off
        buf = bytearray(cur)
        if len(buf) < o:
            buf.extend(bytes(o - len(buf)))
        buf[o:o + len(data)] = data
        new[p] = bytes(buf)
        return "ret", None, new
    if name == "read_data":
        p, off, ln = op[1], op[2], op[3]
        if p not in m or is_dir(m, p):
            return "raise", None, m
        o = 0 if off is None else off
        return "ret", m[p][o:o + ln], m
    if name == "file_size":
        p = op[1]
        if p not in m:
            return "raise", None, m
        if is_dir(m, p):
            return "skip", None, m
        return "ret", len(m[p]), m
    if name == "file_exists":
        return "ret", op[1] in m, m
    if name == "is_directory":
        return "ret", is_dir(m, op[1]), m
    raise ValueError(op)


def all_ops(paths=PATHS):
    ops = []
    for p in paths:
        ops += [("create_file", p), ("delete_file", p), ("create_directory", p), ("remove_directory", p, False),
                ("remove_directory", p, True), ("truncate_file", p), ("file_size", p), ("file_exists", p), ("is_directory", p)]
        for q in paths:
            ops += [("rename_file", p, q), ("replace_file", p, q)]
        for data, off in WRITES:
            ops.append(("write_data", p, data, off))
        for off, ln in READS:
            ops.append(("read_data", p, off, ln))
    return ops


OPS = all_ops()


class FsWorld(World):
    prop = P
    name = "FS"
    uses_sandbox = True

    def build(self):
        return _S()

    def enabled(self, st):
        paths = tuple(self.cfg.get("paths", PATHS))
        if paths == PATHS:
            return OPS
        return all_ops(paths)

    def apply(self, st, op):
        fs = NativeFilestore()
        pre = sandbox.tree()
        args = [Path(a) if isinstance(a, str) else a for a in op[1:]]
        if op[0] == "write_data":
            args[1] = op[2].encode("latin-1")
        obs = {"pre": [[p, k, None if c is None else c.hex()] for p, k, c in pre]}
        try:
            ret = getattr(fs, op[0])(*args)
            if isinstance(ret, RC):
                obs["code"] = ret.name
                obs["code_val"] = int(ret.value)
            elif isinstance(ret, bytes):
                obs["ret"] = ret.hex()
            else:
                obs["ret"] = ret
        except Exception as ex:  # noqa: BLE001
            obs["exc"] = type(ex).__name__
        sandbox.invalidate()
        post = sandbox.tree()
        obs["post"] = [[p, k, None if c is None else c.hex()] for p, k, c in post]
        return obs

    def quiet(self, obs):
        return True

    def check(self, st, op, obs):
        v = []
        pre = tuple((p, k, None if c is None else bytes.fromhex(c)) for p, k, c in obs["pre"])
        post = tuple((p, k, None if c is None else bytes.fromhex(c)) for p, k, c in obs["post"])
        m = model_of(pre)
        kind, val, new = expect(m, op)
        got = model_of(post)
        name = op[0]

        def bad(clause, msg, **d):
            v.append(Violation(P, clause, f"{op} on {sorted(m.items())}: {msg}", op=name, **d))

        if kind == "skip":
            return v
        okerr = ("FileNotFoundError", "PermissionError", "IsADirectoryError", "NotADirectoryError", "OSError", "FileExistsError")
        if "exc" in obs:
            if obs["exc"] not in okerr:
                bad("C17.exception", f"raised {obs['exc']}", exc=obs["exc"])
            elif kind in ("raise", "any_fail"):
                if got != m:
                    bad("C17.failed_op_changed_tree", f"raised {obs['exc']} but changed the tree to {sorted(got.items())}")
            else:
                bad("C17.unexpected_failure", f"raised {obs['exc']} although the precondition holds (model expects {kind} {val})", exc=obs["exc"])
            return v
        if kind == "raise":
            bad("C17.missing_failure", f"did not fail (returned {obs.get('ret', obs.get('code'))}) although the target is missing / a directory")
            return v
        if "code" in obs:
            success = obs["code"].endswith("SUCCESS")
            fam = FAMILY.get(name)
            if fam is not None and (obs["code_val"] >> 4) != fam and obs["code"] not in ("NOT_PERFORMED",):
                bad("C17.wrong_family", f"returned {obs['code']}, a status code of another operation", code=obs["code"])
                return v
            if kind == "code":
                want = val
                if want == "SUCCESS":
                    want_ok = success
                else:
                    want_ok = obs["code"] == want
                if not want_ok:
                    bad("C17.wrong_code", f"returned {obs['code']}, model expects {val}", code=obs["code"], want=val)
            elif kind == "codes":
                if obs["code"] not in val:
                    bad("C17.wrong_code", f"returned {obs['code']}, model expects one of {sorted(val)}", code=obs["code"], want=sorted(val)[0])
            elif kind == "any_fail":
                if success:
                    if got == m:
                        bad("C17.success_without_effect", f"returned {obs['code']} but nothing happened")
            if not success and got != m:
                bad("C17.refusal_changed_tree", f"refused with {obs['code']} but changed the tree to {sorted(got.items())}", code=obs["code"])
            if success and kind in ("code", "codes") and (val == "SUCCESS" or (isinstance(val, str) and val.endswith("SUCCESS"))) and got != new:
                bad("C17.wrong_effect", f"returned {obs['code']} but the tree is {sorted(got.items())}, model expects {sorted(new.items())}")
            if success and kind in ("code", "codes") and not (isinstance(val, str) and (val == "SUCCESS" or val.endswith("SUCCESS"))):
                pass  # already reported as wrong_code
            return v
        # plain return values
        if kind == "ret":
            want = val.hex() if isinstance(val, bytes) else val
            if name in ("truncate_file", "write_data"):
                pass
            elif obs.get("ret") != want:
                bad("C17.wrong_result", f"returned {obs.get('ret')!r}, model expects {want!r}")
            if got != new:
                bad("C17.wrong_effect", f"tree is {sorted(got.items())}, model expects {sorted(new.items())}")
        elif kind in ("code", "codes", "any_fail"):
            bad("C17.wrong_result", f"returned {obs.get('ret')!r} instead of a status code")
        return v


def run(tier: str) -> int:
    run_ = Run(P, tier, assumptions=[
        "universe: paths a, b, d, d/a (d may be a file or a directory); the write and read variants listed in bounds",
        "a documented OS error (FileNotFoundError, PermissionError, IsADirectoryError, NotADirectoryError, OSError) is a 'failing operation': allowed where the precondition fails, provided the tree is unchanged",
        "file_size of a directory is unspecified and not judged; list_directory (shells out to ls) is outside the property's operation list",
    ])
    depth = None
    paths = PATHS if tier == "quick" else PATHS + ("d/b",)
    run_.bounds = {"paths": paths, "writes": [list(w) for w in WRITES], "reads": READS, "depth": depth, "ops_per_state": len(all_ops(paths))}
    res = explore(FsWorld(paths=list(paths)), procs=NPROC, check_cycles=False, max_depth=depth, validate_stride=997, validate_terminals=0, n_samples=1,
                  max_states=400_000)
    # a depth cap is the stated bound, not an unexpected truncation
    capped = res.cap_hit
    run_.add(res)
    run_.cap_hit = False
    run_.extra["depth_bound_reached"] = capped
    return run_.finish(exhaustive=True, rule=("every operation applied in every tree reachable from the empty sandbox" + (f" by fewer than {depth} operations" if depth else " (fixed point: complete reachable set)") + "; states deduplicated by canonical tree"))
