"""C11 - transactions are isolated from earlier transactions and other handler instances
(DESIGN.md 4, C11).  Differential worlds:

 * HIST-DST / HIST-SRC: explore histories of one handler until it is idle again; from every distinct
   idle-after-history state run a follow-up transaction script on that handler and - with the
   process-global state reset to pristine - on a freshly constructed handler over the same
   filesystem state; observations must be identical up to the transaction sequence number.
 * SIBLING: two DestHandlers with independent users / paths in one process, every interleaving of
   their scripts; each handler's observations must equal its solo run."""
from __future__ import annotations

import copy
import json

from checks.c05 import ALPHABET as C05_ALPHABET
from env import core, pdus, refcks
from env.dst import DstWorld
from env.e2e import FaultyFilestore
from env.src import SrcWorld
from xmc import NPROC, clock, sandbox, snapshot
from xmc.engine import Violation, World, explore, explore_many
from xmc.report import Run

P = "C11"


def norm(x, seq_from=None):
    """Drop the transaction sequence number (the only thing allowed to differ)."""
    if isinstance(x, dict):
        out = {}
        for k, v in x.items():
            if k == "seq" and isinstance(v, (list, tuple)):
                out[k] = ["*", v[1]]
            elif k == "tid" and isinstance(v, (list, tuple)):
                out[k] = [v[0], "*"]
            elif k in ("packed", "plen"):
                out[k] = v
            else:
                out[k] = norm(v)
        return out
    if isinstance(x, (list, tuple)):
        return [norm(y) for y in x]
    return x


def first_diff(a, b):
    for i, (x, y) in enumerate(zip(a, b)):
        if x != y:
            return i, x, y
    if len(a) != len(b):
        return min(len(a), len(b)), None, None
    return None


# ------------------------------------------------------------------------------------------------
DST_FOLLOW = {
    "gap": [("md",), ("fd", 2, 2, 0), ("tick",), ("eof", 4, "NO_ERROR", 1), ("tick",), ("tick",), ("fd", 0, 2, 0), ("tick",), ("tick",), ("ackfin",), ("tick",)],
    "plain": [("md",), ("fd", 0, 2, 0), ("fd", 2, 2, 0), ("eof", 4, "NO_ERROR", 1), ("tick",), ("tick",), ("ackfin",), ("tick",)],
    "empty": [("md0",), ("eof", 0, "NO_ERROR", 1), ("tick",), ("tick",), ("ackfin",), ("tick",)],
    "nomd": [("fd", 0, 2, 0), ("tick",), ("eof", 4, "NO_ERROR", 1), ("tick",), ("md",), ("tick",), ("expire",), ("fd", 0, 2, 0), ("fd", 2, 2, 0), ("tick",), ("tick",)],
    "mdonly": [("mdonly",), ("tick",), ("tick",), ("ackfin",), ("tick",)],
    # three gaps, and (suffix _crc) PDUs with the CRC flag and a 4 byte sequence number: larger PDU overhead than the history's
    "gaps3": [("md10",), ("fd", 2, 2, 0), ("fd", 6, 2, 0), ("eof", 10, "NO_ERROR", 1), ("tick",), ("tick",), ("expire",), ("tick",)],
    "gaps3_crc": [("md10",), ("fd", 2, 2, 0), ("fd", 6, 2, 0), ("eof", 10, "NO_ERROR", 1), ("tick",), ("tick",), ("expire",), ("tick",)],
    "cancel": [("md",), ("fd", 2, 2, 0), ("cancel",), ("tick",), ("tick",), ("ackfin",), ("tick",)],
    "silence": [("md",), ("fd", 0, 2, 0), ("eof", 4, "NO_ERROR", 1), ("tick",), ("expire",), ("expire",), ("expire",), ("expire",), ("tick",)],
}


class HistDst(DstWorld):
    prop = P
    name = "HIST-DST"

    def __init__(self, **cfg):
        super().__init__(**cfg)
        self.alphabet = [tuple(e) for e in cfg.get("alphabet", C05_ALPHABET) if e[0] != "newtx"]
        self.follow_modes = cfg.get("follow_modes", ("ack", "unack"))

    def init_model(self, st):
        st.m = {"busy_seen": False, "done": False, "n": 0}

    def enabled(self, st):
        if st.m["done"]:
            return []
        evs = []
        if st.m["n"] < self.cfg.get("hist_depth", 5):
            evs += super().enabled(st)
        if self.idle(st) and st.m["busy_seen"]:
            for name in DST_FOLLOW:
                for mode in self.follow_modes:
                    evs.append(("follow", name, mode))
        return evs

    def update_model(self, st, ev, out):
        m = dict(st.m)
        m["n"] += 1
        if not self.idle(st):
            m["busy_seen"] = True
        if out.get("D", {}).get("ind"):
            m["busy_seen"] = True
        st.m = m

    def follow_pdu(self, st, e, mode, wide=False):
        c = dict(self.c, mode=mode)
        conf = pdus.conf(src=(1, c["idw_s"]), dst=(2, c["idw_d"]), seq=(st.seq, 4 if wide else c["seqw"]), mode=mode, crc=True if wide else c["crc_flag"])
        src10 = core.content(10)
        k = e[0]
        if k == "md10":
            return pdus.build("MD", conf, closure=c["closure"], cks=c["cks"], size=10, sname=core.SRC_PATH, dname=core.dest_path_requested(c))
        if k == "fd" and len(st.src) < 10 and e[1] + e[2] > len(st.src):
            return pdus.build("FD", conf, data=src10[e[1]:e[1] + e[2]], off=e[1])
        if k == "eof" and e[1] == 10:
            return pdus.build("EOF", conf, size=10, cond=e[2], cksum=refcks.REF[c["cks"]](src10))
        if k == "md":
            return pdus.build("MD", conf, closure=c["closure"], cks=c["cks"], size=4, sname=core.SRC_PATH, dname=core.dest_path_requested(c))
        if k == "md0":
            return pdus.build("MD", conf, closure=c["closure"], cks=c["cks"], size=0, sname=core.SRC_PATH, dname=core.dest_path_requested(c))
        if k == "mdonly":
            return pdus.build("MD", conf, closure=c["closure"], cks="null", size=0, sname=None, dname=None)
        if k == "fd":
            return pdus.build("FD", conf, data=st.src[e[1]:e[1] + e[2]], off=e[1])
        if k == "eof":
            return pdus.build("EOF", conf, size=e[1], cond=e[2], cksum=refcks.REF[c["cks"]](st.src[:e[1]]))
        if k == "ackfin":
            return pdus.build("ACKF", conf)
        raise ValueError(e)

    def run_script(self, st, ent, script, mode, wide=False):
        obs_list = []
        for e in script:
            if e[0] == "tick":
                o, msgs = ent.step(None)
            elif e[0] == "expire":
                d = clock.next_expiry(ent.h)
                if d is not None:
                    clock.advance(ent.h, d)
                o, msgs = ent.step(None)
            elif e[0] == "cancel":
                o, msgs, ret = ent.call(ent.h.cancel_request, self.cur_tid(st))
                o["ret"] = ret
            else:
                o, msgs = ent.step(self.follow_pdu(st, e, mode, wide))
            if msgs:
                o["out"] = [m.d for m in msgs]
            sandbox.invalidate()
            data = core.read_file(self.dest_path)
            o["file"] = None if data is None else data.hex()
            o["step"] = ent.h.states.step.name
            obs_list.append(norm(o))
        return obs_list

    def apply(self, st, ev):
        if ev[0] != "follow":
            return super().apply(st, ev)
        _, name, mode = ev
        script = DST_FOLLOW[name]
        st.seq += 1
        t0 = sandbox.tree()
        reg0 = snapshot.REGISTRY.save()
        wide = name.endswith("_crc")
        hist = self.run_script(st, st.D, script, mode, wide)
        # reference: pristine process-global state, freshly constructed handler, same filesystem state
        sandbox.invalidate()
        sandbox.restore(t0)
        snapshot.REGISTRY.reset()
        fresh_ent = core.make_dest(self.c, vfs=FaultyFilestore())
        fresh = self.run_script(st, fresh_ent, script, mode, wide)
        sandbox.invalidate()
        snapshot.REGISTRY.load(reg0)
        st.m = dict(st.m, done=True)
        out = {"follow": [name, mode], "pre_step": "IDLE", "post_step": st.D.h.states.step.name}
        d = first_diff(hist, fresh)
        if d is not None:
            out["diff"] = {"index": d[0], "event": list(script[d[0]]) if d[0] < len(script) else None, "history": d[1], "fresh": d[2]}
        out["n_obs"] = len(hist)
        return out

    def check(self, st, ev, out):
        if ev[0] != "follow" or "diff" not in out:
            return []
        d = out["diff"]
        keys = sorted(k for k in set(d["history"] or {}) | set(d["fresh"] or {}) if (d["history"] or {}).get(k) != (d["fresh"] or {}).get(k))
        return [Violation(P, "C11.history_dest", f"follow-up transaction '{ev[1]}' ({ev[2]}) behaves differently on the handler with history than on a fresh one: "
                          f"at script step {d['index']} {d['event']}: history {json.dumps(d['history'])[:400]} vs fresh {json.dumps(d['fresh'])[:400]}",
                          follow=ev[1], fields=keys[:3])]

    def quiet(self, obs):
        return False


# ------------------------------------------------------------------------------------------------
SRC_FOLLOW = {
    "valid": ("valid", [("tick",)] * 6 + [("ackeof",), ("fin",), ("tick",), ("tick",)]),
    "empty": ("empty", [("tick",)] * 3 + [("ackeof",), ("fin",), ("tick",), ("tick",)]),
    "mdonly": ("mdonly", [("tick",)] * 3 + [("fin",), ("tick",)]),
    "nak": ("valid", [("tick",)] * 3 + [("nak", ((0, 0), (0, 2)))] + [("tick",)] * 4 + [("ackeof",), ("fin",), ("tick",)]),
    "cancel": ("valid", [("tick",)] * 2 + [("cancel",)] + [("tick",), ("ackeof",), ("fin",), ("tick",)]),
    # request-level overrides: the follow-up runs in the other mode / without closure
    "unack_noclosure": ("valid/unack/False", [("tick",)] * 6),
    "unack_closure": ("valid/unack/True", [("tick",)] * 5 + [("fin",), ("tick",)]),
    "ack": ("valid/ack/False", [("tick",)] * 5 + [("ackeof",), ("fin",), ("tick",), ("tick",)]),
    # the source file was rewritten (same length, other bytes) since the previous transaction
    "rewritten": ("valid+rw", [("tick",)] * 6 + [("ackeof",), ("fin",), ("tick",), ("tick",)]),
    "rewritten_cancel": ("valid+rw", [("tick",)] * 2 + [("cancel",)] + [("tick",), ("ackeof",), ("fin",), ("tick",)]),
    "silence": ("valid", [("tick",)] * 4 + [("expire",)] * 3 + [("tick",)]),
    "empty_silence": ("empty", [("tick",)] * 3 + [("expire",)] * 3 + [("tick",)]),
}


class HistSrc(SrcWorld):
    prop = P
    name = "HIST-SRC"
    autoput = False

    def __init__(self, **cfg):
        super().__init__(**cfg)
        self.alphabet = [("put", "valid"), ("put", "valid_wide"), ("put", "empty"), ("put", "mdonly"), ("put", "missing"), ("put", "unknown"), ("tick",), ("expire",),
                         ("cancel", "right"), ("ackeof",), ("fin", "NO_ERROR", "DATA_COMPLETE", "FILE_RETAINED"),
                         ("fin", "FILE_CHECKSUM_FAILURE", "DATA_INCOMPLETE", "FILE_RETAINED"), ("nak", ((0, 2),))]

    def consts(self, st):
        # the remote entity configuration is *not* treated as constant here: a transaction that writes into
        # it leaks into the next one, which is exactly what this world looks for
        h = st.S.h
        return [h.cfg, h.cfg.indication_cfg, st.S.faults, h.check_timer_provider]

    def init_model(self, st):
        st.m = {"active": False, "done": False, "n": 0}

    def enabled(self, st):
        if st.m["done"]:
            return []
        evs = []
        if st.m["n"] < self.cfg.get("hist_depth", 7):
            for e in super().enabled(st):
                if e[0] == "put" and st.nput >= 1 and e[1] in ("valid", "empty", "mdonly", "valid_wide"):
                    continue
                evs.append(e)
        if self.idle(st) and st.m["active"]:
            evs += [("follow", name) for name in SRC_FOLLOW]
        return evs

    def update_model(self, st, ev, out):
        m = dict(st.m)
        m["n"] += 1
        if ev[0] == "put":
            m["active"] = True
        st.m = m

    def run_script(self, st, ent, variant, script):
        obs_list = []
        peer_save = st.peer
        if variant.endswith("+rw"):
            variant = variant[:-3]
            with open(core.SRC_PATH, "wb") as f:
                f.write(bytes(b ^ 0x5A for b in st.src))
            sandbox.invalidate()
        parts = variant.split("/")
        req = self.put_req(parts[0])
        if len(parts) == 3:
            from spacepackets.cfdp import TransmissionMode
            req.trans_mode = TransmissionMode.ACKNOWLEDGED if parts[1] == "ack" else TransmissionMode.UNACKNOWLEDGED
            req.closure_requested = parts[2] == "True"
        o, msgs, ret = ent.call(ent.h.put_request, req)
        o["ret"] = ret
        obs_list.append(norm(o))
        for e in script:
            if e[0] == "tick":
                o, msgs = ent.step(None)
            elif e[0] == "expire":
                d = clock.next_expiry(ent.h)
                if d is not None:
                    clock.advance(ent.h, d)
                o, msgs = ent.step(None)
            elif e[0] == "cancel":
                tid = ent.h.transaction_id
                o, msgs, ret = ent.call(ent.h.cancel_request, tid) if tid is not None else ({}, [], None)
                o["ret"] = ret
            else:
                ee = e if e[0] != "fin" else ("fin", "NO_ERROR", "DATA_COMPLETE", "FILE_RETAINED")
                o, msgs = ent.step(self.make_pdu(st, ee))
            if msgs:
                o["out"] = [m.d for m in msgs]
                last = msgs[-1].d
                st.peer = {"src": last["src"], "dst": last["dst"], "seq": last["seq"], "mode": "ack" if last["mode"] == "ACKNOWLEDGED" else "unack",
                           "crc": last["crc"] == "WITH_CRC"}
            o["step"] = ent.h.states.step.name
            obs_list.append(norm(o))
        st.peer = peer_save
        return obs_list

    def apply(self, st, ev):
        if ev[0] != "follow":
            return super().apply(st, ev)
        variant, script = SRC_FOLLOW[ev[1]]
        reg0 = snapshot.REGISTRY.save()
        st.peer = None
        hist = self.run_script(st, st.S, variant, script)
        snapshot.REGISTRY.reset()
        fresh_ent = core.make_source(self.c)
        st.peer = None
        fresh = self.run_script(st, fresh_ent, variant, script)
        snapshot.REGISTRY.load(reg0)
        st.m = dict(st.m, done=True)
        out = {"follow": ev[1], "pre_step": "IDLE", "post_step": st.S.h.states.step.name, "pre_state": "IDLE", "post_state": st.S.h.state.name}
        d = first_diff(hist, fresh)
        if d is not None:
            out["diff"] = {"index": d[0], "history": d[1], "fresh": d[2]}
        return out

    def check(self, st, ev, out):
        if ev[0] != "follow" or "diff" not in out:
            return []
        d = out["diff"]
        keys = sorted(k for k in set(d["history"] or {}) | set(d["fresh"] or {}) if (d["history"] or {}).get(k) != (d["fresh"] or {}).get(k))
        return [Violation(P, "C11.history_source", f"follow-up transaction '{ev[1]}' behaves differently on the handler with history than on a fresh one: "
                          f"at script step {d['index']}: history {json.dumps(d['history'])[:400]} vs fresh {json.dumps(d['fresh'])[:400]}",
                          follow=ev[1], fields=keys[:3])]

    def quiet(self, obs):
        return False


# ------------------------------------------------------------------------------------------------
class _Sib:
    pass


SIB_SCRIPTS = {
    # A: acknowledged transfer with a gap that is repaired; B: acknowledged transfer that loses data and is cancelled / left hanging
    "A": [("md",), ("fd", 2, 2), ("eof", 4), ("tick",), ("tick",), ("fd", 0, 2), ("tick",), ("ackfin",)],
    "B": [("md",), ("fd", 1, 1), ("fd", 3, 1), ("eof", 4), ("tick",), ("cancel",), ("tick",), ("ackfin",)],
}


class Sibling(World):
    prop = P
    name = "SIBLING"

    def _mk(self, who):
        c = core.full_cfg(dict(self.cfg, mode="ack"))
        ent = core.make_dest(c, vfs=FaultyFilestore())
        ent.name = who
        return ent

    def _pdu(self, who, e, src):
        c = core.full_cfg(self.cfg)
        seq = 3 if who == "A" else 4
        conf = pdus.conf(src=(1, 2), dst=(2, 2), seq=(seq, 2), mode="ack")
        dname = f"out/{who}.bin"
        k = e[0]
        if k == "md":
            return pdus.build("MD", conf, closure=False, cks=c["cks"], size=4, sname=core.SRC_PATH, dname=dname)
        if k == "fd":
            return pdus.build("FD", conf, data=src[e[1]:e[1] + e[2]], off=e[1])
        if k == "eof":
            return pdus.build("EOF", conf, size=e[1], cksum=refcks.REF[c["cks"]](src[:e[1]]))
        if k == "ackfin":
            return pdus.build("ACKF", conf)
        raise ValueError(e)

    def _step(self, ent, who, e, src):
        from spacepackets.cfdp import TransactionId
        from spacepackets.util import UnsignedByteField

        if e[0] == "tick":
            o, msgs = ent.step(None)
        elif e[0] == "cancel":
            o, msgs, ret = ent.call(ent.h.cancel_request, TransactionId(UnsignedByteField(1, 2), UnsignedByteField(3 if who == "A" else 4, 2)))
            o["ret"] = ret
        else:
            o, msgs = ent.step(self._pdu(who, e, src))
        if msgs:
            o["out"] = [m.d for m in msgs]
        data = core.read_file(f"out/{who}.bin")
        o["file"] = None if data is None else data.hex()
        o["step"] = ent.h.states.step.name
        return o

    def build(self):
        import os

        st = _Sib()
        st.src = core.content(4)
        os.makedirs("out", exist_ok=True)
        # solo runs, each from pristine process-global state
        st.solo = {}
        for who in ("A", "B"):
            snapshot.REGISTRY.reset()
            ent = self._mk(who)
            st.solo[who] = [self._step(ent, who, e, st.src) for e in SIB_SCRIPTS[who]]
            for f in os.listdir("out"):
                os.remove(os.path.join("out", f))
        snapshot.REGISTRY.reset()
        st.A = self._mk("A")
        st.B = self._mk("B")
        st.pos = {"A": 0, "B": 0}
        return st

    def consts(self, st):
        return core.entity_consts(st.A) + core.entity_consts(st.B)

    def enabled(self, st):
        return [("step", w) for w in ("A", "B") if st.pos[w] < len(SIB_SCRIPTS[w])]

    def apply(self, st, ev):
        who = ev[1]
        i = st.pos[who]
        o = self._step(getattr(st, who), who, SIB_SCRIPTS[who][i], st.src)
        st.pos[who] = i + 1
        out = {"who": who, "i": i, "obs": o}
        if o != st.solo[who][i]:
            out["solo"] = st.solo[who][i]
        return out

    def quiet(self, obs):
        return False

    def check(self, st, ev, out):
        if "solo" not in out:
            return []
        keys = sorted(k for k in set(out["obs"]) | set(out["solo"]) if out["obs"].get(k) != out["solo"].get(k))
        return [Violation(P, "C11.sibling", f"handler {out['who']} script step {out['i']} {SIB_SCRIPTS[out['who']][out['i']]}: with a sibling handler active "
                          f"{json.dumps(out['obs'])[:350]} but solo {json.dumps(out['solo'])[:350]}", who=out["who"], fields=keys[:3])]


def run(tier: str) -> int:
    run_ = Run(P, tier, assumptions=[
        "'fresh handler' = freshly constructed handler in a process whose cfdppy module / class level state is pristine, over the same filesystem state",
        "observations = emitted PDUs (all fields), indications, fault callbacks, exceptions, handler step and destination file after every call; the transaction sequence number is masked",
    ])
    hd = 5 if tier == "quick" else 6
    worlds = []
    for mode, nak in (("ack", "imm"), ("ack", "def"), ("unack", "imm")):
        worlds.append(HistDst(mode=mode, nak=nak, closure=True, size=4, seg=2, ack_limit=1, nak_limit=1, check_limit=1, hist_depth=hd,
                              follow_modes=("ack", "unack") if tier == "thorough" else (mode,)))
    worlds.append(HistDst(mode="ack", nak="imm", closure=True, size=4, seg=2, disposition=True, ack_limit=1, nak_limit=1, hist_depth=hd, follow_modes=("ack",)))
    # histories that end by abandoning the transaction (fault handler codes overridden): also in the call that queued a PDU
    worlds.append(HistDst(mode="ack", nak="imm", closure=False, size=4, seg=2, ack_limit=1, nak_limit=1, hist_depth=hd, follow_modes=("ack",),
                          faults_d={"FILE_SIZE_ERROR": "abandon", "FILE_CHECKSUM_FAILURE": "abandon", "NAK_LIMIT_REACHED": "abandon"}))
    worlds.append(HistSrc(mode="ack", closure=False, size=2, seg=2, ack_limit=1, hist_depth=5 if tier == "quick" else 7,
                          faults_s={"POSITIVE_ACK_LIMIT_REACHED": "abandon"}))
    for mode in ("ack", "unack"):
        worlds.append(HistSrc(mode=mode, closure=True, size=4, seg=2, ack_limit=1, hist_depth=7 if tier == "quick" else 9))
    # local entity id wider than the destination id (and vice versa)
    worlds.append(HistSrc(mode="unack", closure=False, size=2, seg=2, idw_s=2, idw_d=1, hist_depth=5 if tier == "quick" else 7))
    worlds.append(HistSrc(mode="ack", closure=False, size=2, seg=2, idw_s=1, idw_d=4, ack_limit=1, hist_depth=5 if tier == "quick" else 7))
    # segment length derived from the maximum packet length (no configured value); histories with a wider destination id field
    worlds.append(HistSrc(mode="unack", closure=False, size=14, seg=None, mpl=30, hist_depth=5 if tier == "quick" else 7))
    # small maximum packet length (3 segment requests per NAK PDU without, 2 with the PDU CRC flag)
    worlds.append(HistDst(mode="ack", nak="imm", closure=False, size=4, seg=2, mpl=43, ack_limit=1, nak_limit=2, hist_depth=hd - 1, follow_modes=("ack",)))
    # re-sends (positive ACK limit 2) inside the history and inside the follow-ups
    worlds.append(HistSrc(mode="ack", closure=False, size=2, seg=2, ack_limit=2, hist_depth=7 if tier == "quick" else 9))
    worlds.append(HistDst(mode="ack", nak="def", closure=False, size=4, seg=2, ack_limit=2, nak_limit=2, hist_depth=hd, follow_modes=("ack",)))
    run_.bounds = {"history_depth_dest": hd, "history_depth_source": 7 if tier == "quick" else 9, "follow_ups_dest": list(DST_FOLLOW), "follow_ups_source": list(SRC_FOLLOW),
                   "sibling_scripts": {k: len(v) for k, v in SIB_SCRIPTS.items()}}
    kw = dict(check_cycles=False, validate_stride=1999, validate_terminals=3, n_samples=1, max_states=2_000_000)
    for w in worlds:
        if run_.found_something():
            run_.skip(w)
            continue
        run_.add(explore(w, procs=NPROC, **kw))
    for cks in ("crc32",):
        run_.add(explore(Sibling(cks=cks), procs=1, **kw))
    return run_.finish(rule="every history (event sequence up to the depth bound that leaves the handler idle), deduplicated by canonical state incl. process-global state, x every follow-up script, compared step by step with a fresh handler; all interleavings of two sibling scripts compared with the solo runs")
