"""C13 - unacknowledged transfers tolerate EOF overtaking file data up to the check limit
(DESIGN.md 4, C13).

World DST (unacknowledged, free time) against a reference automaton of the check-limit procedure;
world SRC for the sender half (closure requested, no Finished PDU)."""
from __future__ import annotations

import itertools

from checks.c06 import merge
from env import core
from env.dst import DstWorld
from env.src import SrcWorld
from xmc import NPROC
from xmc.engine import Violation, explore_many
from xmc.report import Run

P = "C13"
CHECK_MS = 5000  # core.Timers(5.0): the check timer interval handed out by the harness's provider


class C13Dst(DstWorld):
    prop = P
    name = "DST-C13"

    def __init__(self, **cfg):
        super().__init__(**cfg)
        size, seg = self.c["size"], self.c["seg"]
        self.segs = [("fd", o, min(seg, size - o), 0) for o in range(0, size, seg)]

    def init_model(self, st):
        st.m = {"md": False, "eof": False, "stored": [], "count": 0, "done": False, "sent": [], "t": 0}

    def enabled(self, st):
        m = st.m
        if m["done"]:
            # a further transaction on the same handler (same remote entity, next sequence number)
            return [("newtx",)] if st.seq + 1 < self.cfg.get("max_tx", 1) and self.idle(st) else []
        evs = [("tick",)]
        if not m["md"]:
            evs.append(("md",))
        for s in self.segs:
            if repr(s) not in m["sent"]:
                evs.append(s)
        if not m["eof"] and m["md"]:
            evs.append(("eof", self.c["size"], "NO_ERROR", 1))
        from xmc import clock
        if clock.next_expiry(st.D.h) is not None:
            evs += [("expire",), ("advance",)]
        return evs

    def full(self, stored):
        size = self.c["size"]
        return size == 0 or merge([tuple(x) for x in stored]) == [(0, size)]

    def update_model(self, st, ev, out):
        if ev[0] == "newtx":
            out["pre_m"] = dict(st.m)
            out["expiry_call"] = False
            st.m = {"md": False, "eof": False, "stored": [], "count": 0, "done": False, "sent": [], "t": 0}
            return
        m = dict(st.m)
        out["pre_m"] = dict(st.m)
        m["sent"] = list(m["sent"])
        if ev[0] == "fd":
            m["sent"].append(repr(ev))
            if self.inds(out, "file_segment_recv") and not self.exc(out):
                m["stored"] = [list(x) for x in merge([tuple(x) for x in m["stored"]] + [(ev[1], ev[1] + ev[2])])]
        if ev[0] == "md" and self.inds(out, "metadata_recv"):
            m["md"] = True
        if ev[0] == "eof" and not self.exc(out):
            m["eof"] = True
        # the model keeps its own clock: time since the check timer was (re)started, independent of the
        # handler's Countdown object
        t_entry = out["pre_m"]["t"] + (out.get("dt", 0) if ev[0] in ("expire", "advance") else 0)
        expiry_call = out["pre_m"]["eof"] and t_entry >= CHECK_MS and ev[0] != "advance"
        out["expiry_call"] = expiry_call
        m["t"] = t_entry
        if ev[0] == "eof" and not out["pre_m"]["eof"]:
            m["t"] = 0
        if expiry_call:
            m["t"] = 0
            if not self.inds(out, "finished"):
                m["count"] += 1
        if self.inds(out, "finished") or (self.idle(st) and m["md"]):
            m["done"] = True
        st.m = m

    def check(self, st, ev, out):
        v = []
        c = self.c
        pre, m = out["pre_m"], st.m
        e = self.exc(out)
        fins = self.inds(out, "finished")
        faults = out.get("D", {}).get("faults", [])
        clr = [f for f in faults if f["cond"] == "CHECK_LIMIT_REACHED"]

        def bad(clause, msg, **d):
            v.append(Violation(P, clause, f"receiver {ev} ({out['pre_step']} -> {out['post_step']}, stored {m['stored']}, expiries so far {pre['count']}, "
                                            f"check limit {c['check_limit']}): {msg}", **d))

        if ev[0] in ("advance", "newtx"):
            return v
        if e and not (e["protocol"] and ev[0] in ("fd", "md", "eof")):
            bad("C13.exception", f"{e['exc']} in {e['site']}", exc=e["exc"], site=e["site"])
            return v

        def expect_success():
            data = core.read_file(self.dest_path)
            if not fins:
                bad("C13.no_completion", "all file data is present but the transfer was not completed in this call", when=ev[0])
            else:
                r = fins[0]
                if (r["cond"], r["deliv"]) != ("NO_ERROR", "DATA_COMPLETE"):
                    bad("C13.completion_status", f"all file data present but Transaction-Finished reports {r['cond']}/{r['deliv']}")
                if data != st.src:
                    bad("C13.file", f"successful completion but the file is {None if data is None else data.hex()}")
            if clr:
                bad("C13.spurious_limit", "Check Limit Reached declared although all data is present")

        if ev[0] == "eof" and not pre["eof"] and m["eof"]:
            if self.full(m["stored"]):
                expect_success()
            else:
                if fins:
                    bad("C13.early_completion", f"EOF arrived with data outstanding but the transaction was finished at once ({fins[0]['cond']}/{fins[0]['deliv']})")
                if clr:
                    bad("C13.early_limit", "Check Limit Reached declared when the EOF arrived")
            return v
        if pre["eof"] and not pre["done"]:
            if out["expiry_call"]:
                if self.full(m["stored"]):
                    expect_success()
                elif pre["count"] + 1 >= c["check_limit"]:
                    if len(clr) != 1:
                        bad("C13.limit_declaration", f"{len(clr)} Check Limit Reached declarations at the {pre['count'] + 1}. expiry (limit {c['check_limit']})", n=len(clr))
                    if not fins:
                        bad("C13.limit_no_completion", "check limit exhausted but the transaction did not end")
                    elif fins[0]["deliv"] != "DATA_INCOMPLETE":
                        bad("C13.limit_status", f"check limit exhausted but delivery reported {fins[0]['deliv']}")
                    if fins and c["closure"]:
                        fp = self.emitted(out, "FIN")
                        if not fp or fp[0]["deliv"] != "DATA_INCOMPLETE":
                            bad("C13.limit_finished_pdu", f"closure requested but Finished PDU is {fp[0]['deliv'] if fp else 'missing'}")
                else:
                    if fins or clr:
                        bad("C13.early_limit", f"expiry {pre['count'] + 1} of {c['check_limit']}: transaction ended / limit declared too early "
                                               f"({[f['cond'] for f in faults]}, finished={bool(fins)})")
            else:
                if fins:
                    bad("C13.completion_without_expiry", f"transaction finished ({fins[0]['cond']}/{fins[0]['deliv']}) in a call without check-timer expiry")
                if clr:
                    bad("C13.limit_without_expiry", "Check Limit Reached declared in a call without check-timer expiry")
        return v


class C13Src(SrcWorld):
    prop = P
    name = "SRC-C13"

    def init_model(self, st):
        st.m = {"eof": False, "done": False, "t": 0}

    def enabled(self, st):
        if st.m["done"]:
            return []
        evs = [("tick",)]
        if st.S.h.states.step.name == "WAITING_FOR_FINISHED":
            evs.append(("fin", "NO_ERROR", "DATA_COMPLETE", "FILE_RETAINED"))
        from xmc import clock
        if clock.next_expiry(st.S.h) is not None:
            evs += [("expire",), ("advance",)]
        return evs

    def update_model(self, st, ev, out):
        m = dict(st.m)
        out["pre_m"] = dict(st.m)
        m["t"] = m["t"] + (out.get("dt", 0) if ev[0] in ("expire", "advance") else 0)
        out["t_entry"] = m["t"]
        if self.emitted(out, "EOF") or (self.c["md_only"] and self.emitted(out, "MD")):
            m["eof"] = True  # the wait for the Finished PDU starts (a metadata-only transfer has no EOF PDU)
            m["t"] = 0
        if self.idle(st) and m["eof"]:
            m["done"] = True
        st.m = m

    def check(self, st, ev, out):
        v = []
        pre = out["pre_m"]
        faults = self.faults(out)
        clr = [f for f in faults if f["cond"] == "CHECK_LIMIT_REACHED"]
        eofs = self.emitted(out, "EOF")

        def bad(clause, msg, **d):
            v.append(Violation(P, clause, f"sender {ev} ({out['pre_step']} -> {out['post_step']}): {msg}", **d))

        e = self.exc(out)
        if e and not e["protocol"]:
            bad("C13.exception", f"{e['exc']} in {e['site']}", exc=e["exc"], site=e["site"])
            return v
        if ev[0] == "advance":
            return v
        if out["post_step"] == "WAITING_FOR_FINISHED":
            from xmc import clock
            if clock.next_expiry(st.S.h) is None:
                bad("C13.sender_no_check_timer", "the sender waits for the Finished PDU of an unacknowledged transfer with closure but no check timer is running")
        waiting = out["pre_step"] == "WAITING_FOR_FINISHED" and pre["eof"]
        if waiting and out["t_entry"] >= CHECK_MS and ev[0] != "fin":
            if len(clr) != 1:
                bad("C13.sender_limit", f"check timer expired without Finished PDU: {len(clr)} Check Limit Reached declarations", n=len(clr))
            if not eofs or eofs[0]["cond"] != "CHECK_LIMIT_REACHED":
                bad("C13.sender_cancel_eof", f"check timer expired: expected an EOF (Check Limit Reached), emitted {[(d['T'], d.get('cond')) for d in self.emitted(out)]}")
            if not self.idle(st):
                bad("C13.sender_not_idle", f"sender in step {out['post_step']} after the check limit cancellation")
        elif clr:
            bad("C13.sender_spurious_limit", f"Check Limit Reached declared in step {out['pre_step']} (time since EOF {out['t_entry']} ms)")
        if ev[0] == "fin" and waiting and not e:
            fins = self.inds(out, "finished")
            if not fins or fins[0]["cond"] != "NO_ERROR":
                bad("C13.sender_finished", f"Finished PDU received in time but Transaction-Finished is {fins}")
        return v


def configs(tier):
    dst, src = [], []
    L = 2
    sizes = (L + 1, 2 * L, 2 * L + 1) if tier == "quick" else (1, L, L + 1, 2 * L, 2 * L + 1, 3 * L)
    for size, cl, closure, cks in itertools.product(sizes, (1, 2, 3), (False, True), ("crc32", "crc32c")):
        if tier == "quick" and cks == "crc32c" and (cl != 2 or size != L + 1):
            continue
        dst.append(dict(mode="unack", size=size, seg=L, check_limit=cl, closure=closure, cks=cks))
    # two consecutive transactions on one DestHandler, both with the EOF overtaking data
    for cl, closure in itertools.product((1, 2), (False, True)):
        dst.append(dict(mode="unack", size=L + 1, seg=L, check_limit=cl, closure=closure, cks="crc32", max_tx=2))
    for size in (0, 3):
        src.append(dict(mode="unack", closure=True, size=size, seg=L))
    src.append(dict(mode="unack", closure=True, size=0, md_only=True))
    return dst, src


def run(tier: str) -> int:
    run_ = Run(P, tier, assumptions=[
        "an expiry call is a state-machine call (with or without PDU) entered while the check timer handed out by the harness's provider has expired; time may also pass without a call ('advance')",
        "default fault handlers (Check Limit Reached -> notice of cancellation, checksum failure -> ignore)",
    ])
    dst, src = configs(tier)
    worlds = [C13Dst(**kw) for kw in dst] + [C13Src(**kw) for kw in src]
    run_.bounds = {"receiver_configs": len(dst), "sender_configs": len(src), "segments": "<=3", "check_limits": [1, 2, 3]}
    results = explore_many(worlds, procs=NPROC, check_cycles=False, validate_stride=499, validate_terminals=3, n_samples=1, max_states=1_000_000)
    run_.add_all(results)
    return run_.finish(rule="complete reachable graph per configuration: every subset of segments late, every placement of each late segment and of the EOF relative to every check-timer expiry (timer expiry before / after PDU arrival)")
