"""C15 - user indications are faithful, causally ordered and gated by configuration (DESIGN.md 4, C15).

World E2E (fault-free interleavings, single faults, cancel requests) under all 2^4 settings of the
implemented indication switches and all message-to-user list variants.  Per call the indications
delivered are compared with what the PDUs accepted / emitted by that call imply."""
from __future__ import annotations

import itertools

from env import core
from env.dst import DstWorld
from env.e2e import E2EWorld
from xmc import NPROC
from xmc.engine import Violation, explore, explore_many
from xmc.report import Run

P = "C15"
FD_STEPS = ("RECEIVING_FILE_DATA", "RECV_FILE_DATA_WITH_CHECK_LIMIT_HANDLING", "WAITING_FOR_MISSING_DATA")
EOF_STEPS = ("RECEIVING_FILE_DATA", "RECV_FILE_DATA_WITH_CHECK_LIMIT_HANDLING", "WAITING_FOR_METADATA", "IDLE")
MD_STEPS = ("IDLE", "WAITING_FOR_METADATA")


class C15World(E2EWorld):
    prop = P
    name = "E2E-C15"

    def build(self):
        st = super().build()
        st.mon = {w: dict(v) for w, v in self.FRESH.items()}
        return st

    FRESH = {"S": {"tx": False, "fin": False, "cancel": False, "aband": False, "finrx": None}, "D": {"md": False, "fin": False, "aband": False, "finpdu": None}}

    def eff(self, st):
        """effective mode / closure of the running transaction (request-level overrides of the second one)"""
        c = dict(self.c)
        if st.ntx == 2:
            t2 = self.cfg["tx2"]
            if t2.get("req_mode") in ("ack", "unack"):
                c["mode"] = t2["req_mode"]
            if t2.get("req_closure") in (True, False):
                c["closure"] = t2["req_closure"]
        return c

    def apply(self, st, ev):
        if ev[0] == "put2":
            st.mon = {w: dict(v) for w, v in self.FRESH.items()}
        pre = {w: dict(st.mon[w]) for w in ("S", "D")}
        s_busy = st.S.h.state.name
        d_busy = st.D.h.state.name
        out = super().apply(st, ev)
        out["pre_mon"] = pre
        out["ntx"] = st.ntx
        out["eff"] = [self.eff(st)["mode"], self.eff(st)["closure"]]
        out["pre_state"] = {"S": s_busy, "D": d_busy}
        out["post_state"] = {"S": st.S.h.state.name, "D": st.D.h.state.name}
        mon = {w: dict(st.mon[w]) for w in ("S", "D")}
        for w in ("S", "D"):
            o = out.get(w, {})
            for r in o.get("ind", []):
                if r["ind"] == "transaction":
                    mon["S"]["tx"] = True
                if r["ind"] == "metadata_recv":
                    mon["D"]["md"] = True
                if r["ind"] == "finished":
                    mon[w]["fin"] = True
            if any(f["fault"] == "abandon" for f in o.get("faults", [])):
                mon[w]["aband"] = True
            if w == "D":
                for d in o.get("out", []):
                    if d["T"] == "FIN":
                        mon["D"]["finpdu"] = [d["cond"], d["deliv"], d["fstat"], d["floc"]]  # the last Finished PDU emitted
        if ev[0] == "cancel" and out.get(ev[1], {}).get("ret") is True and ev[1] == "S":
            mon["S"]["cancel"] = True
        pd = out.get("pdu_d")
        if ev[0] in ("recv", "dlv") and ev[1] == "S" and pd and pd["T"] == "FIN" and "shell" not in out and not out.get("S", {}).get("exc") \
                and mon["S"]["finrx"] is None:
            mon["S"]["finrx"] = [pd["cond"], pd["deliv"], pd["fstat"]]  # the first Finished PDU the sender accepted
        st.mon = mon
        return out

    def quiet(self, obs):
        return super().quiet({k: v for k, v in obs.items() if k not in ("pre_mon", "pre_state", "post_state", "ntx", "eff")})

    def enabled(self, st):
        # the user does not cancel a transaction whose completion was already reported
        evs = []
        for e in super().enabled(st):
            if e[0] == "cancel" and (st.mon[e[1]]["fin"] or (e[1] == "D" and st.mon["D"]["finpdu"] is not None)):
                continue
            evs.append(e)
        return evs

    def check(self, st, ev, out):
        v = []
        c = self.c
        es, er, fs, tf = c["ind"]
        who = ev[1] if len(ev) > 1 and ev[1] in ("S", "D") else ("D" if ev[0] in ("flip",) else None)
        if who is None or "shell" in out:
            return v
        o = out.get(who, {})
        inds = o.get("ind", [])
        emitted = o.get("out", [])
        pre = out["pre_mon"][who]
        pre_step = out.get("pre_step")
        pdu = out.get("pdu_d") if ev[0] in ("recv", "dlv", "flip", "dlvflip") else None
        exc = o.get("exc")
        tid = [1, out["ntx"] - 1]
        if ev[0] == "put2":
            return v

        def bad(clause, msg, **d):
            v.append(Violation(P, clause, f"{ev} ({who} in step {pre_step}, switches eof_sent={es} eof_recv={er} file_segment={fs} finished={tf}): {msg}",
                               who=who, **d))

        def count(kind):
            return [r for r in inds if r["ind"] == kind]

        for r in inds:
            if r.get("tid") is not None and list(r["tid"]) != tid:
                bad("C15.wrong_id", f"indication {r['ind']} carries transaction id {r['tid']}, the PDUs carry {tid}", ind=r["ind"])
            if r.get("tid") is None:
                bad("C15.wrong_id", f"indication {r['ind']} carries no transaction id", ind=r["ind"])
        late = list(inds)
        if who == "D":
            # a further notice of completion (new Finished PDU with another condition, e.g. the cancellation after the positive ACK limit of a
            # completed transfer) brings its own Transaction-Finished indication; judged by the receiver_finished clauses below
            fp = [d for d in emitted if d["T"] == "FIN"]
            if fp and pre.get("finpdu") != [fp[0]["cond"], fp[0]["deliv"], fp[0]["fstat"], fp[0]["floc"]]:
                late = [r for r in inds if r["ind"] != "finished"]
        if pre["fin"] and late:
            bad("C15.after_finished", f"indications {[r['ind'] for r in late]} after the Transaction-Finished indication", ind=late[0]["ind"])
        if who == "S":
            n_eof = len([d for d in emitted if d["T"] == "EOF"])
            got = len(count("eof_sent"))
            if got != (n_eof if es else 0):
                bad("C15.eof_sent", f"{n_eof} EOF PDUs emitted but {got} EOF-Sent indications", enabled=es)
            tx = count("transaction")
            first_md = any(d["T"] == "MD" for d in emitted) and not pre["tx"]
            if first_md and len(tx) != 1:
                bad("C15.transaction", f"first Metadata emitted but {len(tx)} Transaction indications")
            if tx and (not first_md or inds[0]["ind"] != "transaction"):
                bad("C15.transaction_order", "Transaction indication not first / not with the first Metadata PDU")
            if tx:
                want_orig = (9, 77) if c["msgs"] in ("orig",) else None
                if c["msgs"] in ("both", "all"):
                    want_orig = None  # a proxy put response is present as well
                got_orig = tx[0]["orig"]
                if (None if got_orig is None else tuple(got_orig)) != want_orig:
                    bad("C15.originating_id", f"Transaction indication carries originating id {got_orig}, expected {want_orig} for message list '{c['msgs']}'", msgs=c["msgs"])
            # completion: the handler finished its transaction in this call
            completed = out["pre_state"]["S"] == "BUSY" and out["post_state"]["S"] == "IDLE" and pre["tx"] and not any(
                f["fault"] == "abandon" for f in o.get("faults", []))
            fins = count("finished")
            if completed:
                if len(fins) != (1 if tf else 0):
                    bad("C15.sender_finished", f"sender transaction ended but {len(fins)} Transaction-Finished indications (enabled: {tf})", enabled=tf,
                        cancelled=pre["cancel"] or ev[0] == "cancel", mode=c["mode"])
            elif fins:
                bad("C15.sender_finished_early", "Transaction-Finished indication although the sender's transaction is still active")
            if fins and completed and out["eff"] == ["unack", False] and not (pre["cancel"] or ev[0] == "cancel") and not o.get("faults"):
                r = fins[0]
                if (r["cond"], r["deliv"], r["fstat"]) != ("NO_ERROR", "DATA_COMPLETE", "FILE_STATUS_UNREPORTED"):
                    bad("C15.sender_finished_params", f"unacknowledged transfer without closure completed nominally but Transaction-Finished carries "
                                                      f"({r['cond']},{r['deliv']},{r['fstat']})")
            rx = pre.get("finrx")
            if fins and rx is not None and not (pre["cancel"] or ev[0] == "cancel") and not o.get("faults"):
                r = fins[0]
                if [r["cond"], r["deliv"], r["fstat"]] != rx:
                    bad("C15.sender_finished_params", f"Transaction-Finished ({r['cond']},{r['deliv']},{r['fstat']}) differs from the Finished PDU the sender "
                                                      f"accepted earlier ({rx[0]},{rx[1]},{rx[2]})")
            if fins and pdu is not None and pdu["T"] == "FIN":
                r = fins[0]
                if (r["cond"], r["deliv"], r["fstat"]) != (pdu["cond"], pdu["deliv"], pdu["fstat"]):
                    bad("C15.sender_finished_params", f"Transaction-Finished ({r['cond']},{r['deliv']},{r['fstat']}) differs from the Finished PDU received "
                                                      f"({pdu['cond']},{pdu['deliv']},{pdu['fstat']})")
            for k in ("metadata_recv", "file_segment_recv", "eof_recv"):
                if count(k):
                    bad("C15.foreign_indication", f"receiver-side indication {k} at the sender", ind=k)
        else:
            accepted = pdu is not None and not exc
            # Metadata
            # SENDING_EOF_ACK_PDU is left at the start of the call (towards waiting for metadata / missing data /
            # completion): whether the PDU of this call is still accepted is not visible from outside
            transient = pre_step == "SENDING_EOF_ACK_PDU"
            md = count("metadata_recv")
            want_md = 1 if (accepted and pdu["T"] == "MD" and pre_step in MD_STEPS) else 0
            if len(md) != want_md and not (transient and accepted and pdu["T"] == "MD" and len(md) <= 1):
                bad("C15.metadata_recv", f"{len(md)} Metadata-Recv indications, expected {want_md}", want=want_md)
            if md and pdu is not None:
                r = md[0]
                want_size = None if pdu["sname"] is None else pdu["size"]
                want_msgs = None if pdu["opts"] is None else pdu["opts"]
                if (r["sname"], r["dname"], r["size"], r["src"]) != (pdu["sname"], pdu["dname"], want_size, pdu["src"]):
                    bad("C15.metadata_params", f"Metadata-Recv ({r['sname']},{r['dname']},{r['size']},{r['src']}) differs from the PDU "
                                               f"({pdu['sname']},{pdu['dname']},{want_size},{pdu['src']})")
                if (r["msgs"] or None) != (want_msgs or None):
                    bad("C15.metadata_msgs", f"Metadata-Recv messages to user {r['msgs']} differ from the PDU's options {want_msgs}", msgs=c["msgs"])
            # File data
            seg = count("file_segment_recv")
            want_fd = 1 if (accepted and pdu["T"] == "FD" and pre_step in FD_STEPS and fs) else 0
            if len(seg) != want_fd and not (transient and accepted and pdu["T"] == "FD" and len(seg) <= (1 if fs else 0)):
                bad("C15.file_segment_recv", f"{len(seg)} File-Segment-Recv indications, expected {want_fd} (switch {fs})", enabled=fs, want=want_fd)
            if seg and pdu is not None and pdu["T"] == "FD":
                r = seg[0]
                if (r["off"], r["len"]) != (pdu["off"], len(pdu["data"]) // 2):
                    bad("C15.file_segment_params", f"File-Segment-Recv offset/length ({r['off']},{r['len']}) but the PDU has ({pdu['off']},{len(pdu['data']) // 2})")
            if seg and not (pre["md"] or md):
                bad("C15.segment_before_metadata", "File-Segment-Recv before any Metadata-Recv")
            # EOF
            eofi = count("eof_recv")
            # an EOF (cancel) which follows the regular EOF while missing data is re-requested is a new event (it cancels the
            # transaction); a repeated EOF (no error) there is only acknowledged again
            eof_event = accepted and pdu["T"] == "EOF" and (pre_step in EOF_STEPS or (pre_step == "WAITING_FOR_MISSING_DATA" and pdu["cond"] != "NO_ERROR"))
            want_eof = 1 if (eof_event and er) else 0
            if len(eofi) != want_eof and not (transient and accepted and pdu["T"] == "EOF" and len(eofi) <= (1 if er else 0)):
                bad("C15.eof_recv", f"{len(eofi)} EOF-Recv indications, expected {want_eof} (switch {er})", enabled=er, want=want_eof)
            # completion
            fins = count("finished")
            finpdus = [d for d in emitted if d["T"] == "FIN"]
            # a completion = a Finished PDU that is not a mere re-send of the previous one (e.g. the cancellation after the positive ACK limit
            # of an already completed transfer issues a new notice of completion with its own condition code)
            first_fin_pdu = finpdus and out["pre_mon"]["D"]["finpdu"] != [finpdus[0]["cond"], finpdus[0]["deliv"], finpdus[0]["fstat"], finpdus[0]["floc"]]
            completed_silently = out["pre_state"]["D"] == "BUSY" and out["post_state"]["D"] == "IDLE" and not out["pre_mon"]["D"]["finpdu"] \
                and not finpdus and not any(f["fault"] == "abandon" for f in o.get("faults", []))
            if first_fin_pdu or completed_silently:
                if len(fins) != (1 if tf else 0):
                    bad("C15.receiver_finished", f"receiver completed but {len(fins)} Transaction-Finished indications (enabled: {tf})", enabled=tf)
            elif fins:
                bad("C15.receiver_finished_spurious", "Transaction-Finished indication without a completion")
            if fins and finpdus:
                r, d = fins[0], finpdus[0]
                if (r["cond"], r["deliv"], r["fstat"], r["floc"]) != (d["cond"], d["deliv"], d["fstat"], d["floc"]):
                    bad("C15.receiver_finished_params", f"Transaction-Finished ({r['cond']},{r['deliv']},{r['fstat']},{r['floc']}) differs from the Finished PDU "
                                                        f"({d['cond']},{d['deliv']},{d['fstat']},{d['floc']})")
            for k in ("transaction", "eof_sent"):
                if count(k):
                    bad("C15.foreign_indication", f"sender-side indication {k} at the receiver", ind=k)
        return v


class C15Foreign(DstWorld):
    """One destination handler; besides the PDUs of its transaction, PDUs of another transaction of the same sender (other
    sequence number) arrive at any point.  Every *-Recv indication issued by a call must carry the transaction id of the
    PDU delivered by that call."""

    prop = P
    name = "DST-C15-FOREIGN"
    OTHER = (("seq", (7, 2)),)
    default_alphabet = (("md",), ("fd", 0, 2, 0), ("fd", 2, 2, 0), ("eof", 4, "NO_ERROR", 1), ("tick",), ("ackfin",),
                        ("pdu", "FD", None, OTHER), ("pdu", "EOF", None, OTHER + (("size", 4),)), ("pdu", "MD", None, OTHER + (("size", 4),)))

    def check(self, st, ev, out):
        v = []
        d = out.get("pdu")
        if not d:
            return v
        want = [d["src"][0], d["seq"][0]]
        for r in self.inds(out):
            if r["ind"] in ("metadata_recv", "file_segment_recv", "eof_recv") and list(r["tid"]) != want:
                v.append(Violation(P, "C15.indication_tid", f"{ev} (step {out['pre_step']}): {r['ind']} indication carries transaction id {r['tid']} "
                                                            f"but the PDU delivered by this call belongs to transaction {want}", ind=r["ind"]))
        return v


def configs(tier):
    out = []
    L = 2
    switches = list(itertools.product((False, True), repeat=4))
    for ind, (mode, closure) in itertools.product(switches, (("ack", False), ("unack", True), ("unack", False))):
        out.append(dict(ind=ind, mode=mode, closure=closure, size=L + 1, seg=L, link="ff"))
    # destination given as a directory / pre-existing file: the indication must carry the names of the PDU
    for shape, (mode, closure) in itertools.product(("dir", "existing", "dir_existing"), (("ack", False), ("unack", True))):
        out.append(dict(shape=shape, mode=mode, closure=closure, size=L + 1, seg=L, link="ff"))
    for msgs, (mode, closure), md in itertools.product(("none", "plain", "orig", "proxy", "both", "all"), (("ack", False), ("unack", True)), (False, True)):
        out.append(dict(msgs=msgs, mode=mode, closure=closure, size=0 if md else L + 1, md_only=md, seg=L, link="ff"))
    some = [(True, True, True, True), (False, False, False, False), (True, False, True, False), (False, True, False, True)]
    for ind, (mode, closure, nak) in itertools.product(some if tier == "quick" else switches, (("ack", False, "imm"), ("ack", False, "def"), ("unack", True, "imm"))):
        out.append(dict(ind=ind, mode=mode, closure=closure, nak=nak, size=L + 1, seg=L, link="k", K=1, kinds=("drop", "dup", "delay"),
                        ack_limit=2, nak_limit=2, check_limit=2))
    for ind, (mode, closure) in itertools.product(some, (("ack", False), ("unack", True), ("unack", False))):
        out.append(dict(ind=ind, mode=mode, closure=closure, size=2 * L + 1, seg=L, link="ff", cancels=1))
    # the ACK of the Finished PDU is lost and the positive ACK limit (1) is reached: the cancellation is a completion of its own
    for ind in (some[0], some[3]):
        out.append(dict(ind=ind, mode="ack", closure=False, nak="imm", size=L + 1, seg=L, link="k", K=1, kinds=("drop",), ack_limit=1, nak_limit=2))
    # a cancel request at either entity combined with one link fault (e.g. the sender cancels while lost data is re-requested)
    for ind, nak in itertools.product((some[0], some[3]), ("imm", "def")):
        out.append(dict(ind=ind, mode="ack", closure=False, nak=nak, size=L + 1, seg=L, link="k", K=1, kinds=("drop", "delay"),
                        ack_limit=2, nak_limit=2, cancels=1))
    # two consecutive transactions on the same handlers, the second with request-level mode / closure
    for (mode, closure), (m2, c2) in itertools.product((("ack", False), ("unack", True), ("unack", False)), (("ack", False), ("unack", True), ("unack", False))):
        out.append(dict(mode=mode, closure=closure, size=L + 1, seg=L, link="ff", tx2=dict(req_mode=m2, req_closure=c2)))
        out.append(dict(mode=mode, closure=closure, size=L + 1, seg=L, link="ff", tx2=dict(req_mode=m2, req_closure=c2), cancels=1))
    return out


def run(tier: str) -> int:
    run_ = Run(P, tier, assumptions=[
        "a File Data PDU is accepted in the steps RECEIVING_FILE_DATA / check-limit handling / WAITING_FOR_MISSING_DATA, an EOF PDU in RECEIVING_FILE_DATA / check-limit handling / WAITING_FOR_METADATA / idle (acknowledged), Metadata when idle or awaited",
        "sender completion = busy -> idle without abandonment; receiver completion = first Finished PDU emitted, or busy -> idle without one",
        "PDUs of closed transactions are answered by the entity shell and cause no indications",
    ])
    cfgs = configs(tier)
    worlds = [C15World(**kw) for kw in cfgs]
    run_.bounds = {"configs": len(worlds), "switch_settings": 16, "message_lists": ["none", "plain", "orig", "proxy", "both", "all"], "links": ["ff", "k (K=1)", "ff + cancel"]}
    results = explore_many(worlds, procs=NPROC, check_cycles=False, validate_stride=499, validate_terminals=3, n_samples=1, max_states=1_000_000)
    run_.add_all(results)
    depth = 5 if tier == "quick" else 7
    for mode, closure in (("ack", False), ("unack", True)):
        run_.add(explore(C15Foreign(mode=mode, closure=closure, size=4, seg=2, ack_limit=2, nak_limit=2, check_limit=2), procs=NPROC, check_cycles=False,
                         max_depth=depth, validate_stride=1999, validate_terminals=2, n_samples=1, max_states=1_000_000))
    run_.cap_hit = False
    run_.bounds["foreign_pdu_worlds"] = {"depth": depth, "alphabet": [list(map(str, e)) for e in C15Foreign.default_alphabet]}
    return run_.finish(rule="complete reachable graph per configuration; per call the multiset of indications is compared with the PDUs accepted / emitted by that call and the switches")
