"""C04 - retry limits are honoured exactly; a silent peer cannot hang a transaction (DESIGN.md 4, C04).

Worlds SRC and DST (acknowledged mode, free virtual time incl. time passing without a call) against
reference retry automata with their own clock: EOF awaiting its ACK, Finished awaiting its ACK,
NAK sequences awaiting missing data - each followed by the cancellation exchange and abandonment."""
from __future__ import annotations

import itertools

from checks.c06 import merge, subtract
from env.dst import DstWorld
from env.src import SrcWorld
from xmc import NPROC, clock
from xmc.engine import Violation, explore_many
from xmc.report import Run

P = "C04"
ACK_MS = 7000   # positive_ack_timer_interval_seconds in env.core.remote_cfg
NAK_MS = 11000  # nak_timer_interval_seconds


def strip(d):
    return {k: v for k, v in d.items() if k not in ("plen", "packed")}


class RetryMixin:
    """Shared judgement of one positive-ACK style retry procedure."""

    def judge_retry(self, *, m, pre, ev, out, emitted, faults, fins, N, interval, what, bad, is_progress, limit_cond):
        """pre['proc'] = {'kind', 'pdu' (the PDU awaiting its answer), 'j', 't'}.  Returns the new proc dict or None."""
        proc = dict(pre["proc"])
        t_entry = proc["t"] + (out.get("dt", 0) if ev[0] in ("expire", "advance") else 0)
        proc["t"] = t_entry
        if ev[0] == "advance":
            return proc
        if is_progress:
            return None
        same = [d for d in emitted if strip(d) == proc["pdu"]]
        lim = [f for f in faults if f["cond"] == limit_cond]
        if t_entry < interval:
            if same:
                bad("C04.resend_without_expiry", f"{what} re-sent {t_entry} ms after the last transmission (interval {interval} ms)", what=what)
            if lim:
                bad("C04.limit_without_expiry", f"{limit_cond} declared {t_entry} ms after the last transmission (interval {interval} ms)", what=what)
            return proc
        # an expiry call
        j = proc["j"] + 1
        if j < N:
            if len(same) != 1:
                bad("C04.no_resend", f"expiry {j} of {N}: expected exactly one identical re-send of the {what}, got {len(same)} "
                                     f"(emitted {[d['T'] for d in emitted]})", what=what, n=len(same))
            if len(emitted) != len(same):
                bad("C04.extra_on_resend", f"expiry {j} of {N}: emitted {[d['T'] for d in emitted]} besides the {what}", what=what)
            if lim or fins:
                bad("C04.limit_early", f"{limit_cond} declared / transaction ended at expiry {j}, limit is {N}", what=what)
            proc["j"] = j
            proc["t"] = 0
            return proc
        # j == N: the limit
        if len(lim) != 1 and not (proc["kind"].startswith("cancel") and any(f["fault"] == "abandon" for f in faults)):
            bad("C04.limit_declaration", f"expiry {j} = limit {N}: {len(lim)} {limit_cond} declarations (faults {[(f['fault'], f['cond']) for f in faults]})",
                what=what, n=len(lim))
        if same:
            bad("C04.resend_at_limit", f"expiry {j} = limit {N}: the {what} was re-sent once more", what=what)
        return "limit"


# ------------------------------------------------------------------------------------------------
class C04Src(SrcWorld, RetryMixin):
    prop = P
    name = "SRC-C04"

    def init_model(self, st):
        st.m = {"proc": None, "phase": "pre", "ncancel": 0, "nnak": 0}

    def enabled(self, st):
        m = st.m
        if m["phase"] == "end":
            return [("tick",)]
        evs = [("tick",)]
        step = st.S.h.states.step.name
        if step == "WAITING_FOR_EOF_ACK" and m["proc"] is not None:
            evs.append(("ackeof", m["proc"]["pdu"]["cond"]))
            if m["nnak"] < 2 and self.c["size"] > 0:
                evs.append(("nak", ((0, min(2, self.c["size"])),)))  # a retransmission request is not an acknowledgement
        if step == "WAITING_FOR_FINISHED" and m["phase"] == "acked" and m["nnak"] < 2 and self.c["size"] > 0:
            evs.append(("nak", ((0, min(2, self.c["size"])),)))  # the receiver re-requests data after it acknowledged the EOF
        if m["ncancel"] < 1 and st.S.h.state.name == "BUSY" and m["phase"] in ("pre", "eof", "acked"):
            evs.append(("cancel", "right"))
        if clock.next_expiry(st.S.h) is not None:
            evs += [("expire",), ("advance",)]
        return evs

    def update_model(self, st, ev, out):
        m = dict(st.m)
        pre = dict(st.m)
        out["pre_m"] = pre
        v = []
        emitted = self.emitted(out)
        faults = self.faults(out)
        N = self.c["ack_limit"]

        def bad(clause, msg, **d):
            v.append(dict(clause=clause, msg=msg, detail=d))

        if ev[0] == "cancel":
            m["ncancel"] += 1
        if ev[0] == "nak":
            m["nnak"] += 1
        if pre["proc"] is not None and ev[0] == "nak":
            # the call serves the retransmission and nothing else; the retry clock keeps running, the count is kept
            same = [d for d in emitted if strip(d) == pre["proc"]["pdu"]]
            lim = [f for f in faults if f["cond"] == "POSITIVE_ACK_LIMIT_REACHED"]
            if same or lim:
                bad("C04.retry_in_nak_call", f"a call that serves a NAK re-sent the EOF / declared the limit ({len(same)} EOF, {len(lim)} declarations)")
            m["proc"] = dict(pre["proc"])
        elif pre["proc"] is not None:
            res = self.judge_retry(m=m, pre=pre, ev=ev, out=out, emitted=emitted, faults=faults, fins=self.inds(out, "finished"), N=N,
                                   interval=ACK_MS, what="EOF" if pre["proc"]["kind"] == "eof" else "EOF (cancel)", bad=bad,
                                   is_progress=(ev[0] == "ackeof" and not self.exc(out)) or (ev[0] == "cancel" and out.get("ret") is True),
                                   limit_cond="POSITIVE_ACK_LIMIT_REACHED")
            if res == "limit":
                if pre["proc"]["kind"] == "eof":
                    # default handler: notice of cancellation -> EOF (cancel) with the limit condition, new procedure
                    eofs = [d for d in emitted if d["T"] == "EOF" and d["cond"] == "POSITIVE_ACK_LIMIT_REACHED"]
                    if len(eofs) != 1 or len(emitted) != 1:
                        bad("C04.cancel_eof", f"positive ACK limit: expected exactly one EOF (Positive ACK Limit Reached), emitted "
                                              f"{[(d['T'], d.get('cond')) for d in emitted]}")
                        m["proc"] = None
                        m["phase"] = "end"
                    else:
                        m["proc"] = {"kind": "cancel", "pdu": strip(eofs[0]), "j": 0, "t": 0}
                else:
                    if not self.idle(st):
                        bad("C04.not_abandoned", f"cancellation exchange timed out but the handler is in step {out['post_step']}")
                    if emitted:
                        bad("C04.emit_on_abandon", f"PDUs {[d['T'] for d in emitted]} emitted when the transaction was abandoned")
                    if self.inds(out, "finished"):
                        bad("C04.finished_on_abandon", "Transaction-Finished issued for an abandoned transaction")
                    m["proc"] = None
                    m["phase"] = "end"
            elif res is None:
                m["proc"] = None
                m["phase"] = "acked" if ev[0] == "ackeof" else m["phase"]
            else:
                m["proc"] = res
        # a new procedure starts with the first transmission of an EOF
        if m["proc"] is None or ev[0] == "cancel":
            eofs = [d for d in emitted if d["T"] == "EOF"]
            if eofs and (pre["proc"] is None or ev[0] == "cancel") and self.c["mode"] == "ack":
                kind = "eof" if eofs[0]["cond"] == "NO_ERROR" else "cancel"
                m["proc"] = {"kind": kind, "pdu": strip(eofs[0]), "j": 0, "t": 0}
                m["phase"] = "eof"
        if self.idle(st) and pre["phase"] != "pre":
            m["phase"] = "end"
            m["proc"] = None
        out["viol"] = v
        st.m = m

    def check(self, st, ev, out):
        vs = [Violation(P, x["clause"], f"sender {ev} ({out['pre_step']} -> {out['post_step']}): {x['msg']}", side="sender", **x["detail"]) for x in out.get("viol", [])]
        e = self.exc(out)
        if e and not e["protocol"]:
            vs.append(Violation(P, "C04.exception", f"sender {ev}: {e['exc']} in {e['site']}", exc=e["exc"], site=e["site"]))
        return vs

    def quiet(self, obs):
        return "S" not in obs and obs.get("pre_step") == obs.get("post_step") and "ret" not in obs

    def terminal_check(self, st):
        step = st.S.h.states.step.name
        if self.idle(st) or (step == "WAITING_FOR_FINISHED" and st.m["phase"] == "acked"):
            return []
        return [Violation(P, "C04.hang", f"sender stuck in step {step} although every timer has run out (phase {st.m['phase']})", side="sender", step=step)]

    def cycle_detail(self, evs):
        return {"side": "sender"}

    def outcome(self, st):
        return [st.S.h.states.step.name, st.m["phase"]]


# ------------------------------------------------------------------------------------------------
class C04Dst(DstWorld, RetryMixin):
    prop = P
    name = "DST-C04"

    def __init__(self, **cfg):
        super().__init__(**cfg)
        size, seg = self.c["size"], self.c["seg"]
        self.segs = [("fd", o, min(seg, size - o), 0) for o in range(0, size, seg)]

    def init_model(self, st):
        st.m = {"proc": None, "phase": "pre", "sent": [], "md": False, "eof": False, "stored": [], "ncancel": 0}

    def enabled(self, st):
        m = st.m
        evs = [("tick",)]
        if m["phase"] == "end":
            return evs
        if not m["md"]:
            evs.append(("md",))
        if not m["eof"]:
            evs.append(("eof", self.c["size"], "NO_ERROR", 1))
        for i, s in enumerate(self.segs):
            if self.cfg.get("only_middle") and i != 1 and not m["eof"]:
                continue  # keep two non-adjacent gaps open until the EOF arrived
            if repr(s) not in m["sent"]:
                evs.append(s)
        if st.D.h.states.step.name == "WAITING_FOR_FINISHED_ACK":
            evs.append(("ackfin",))
        if m["ncancel"] < 1 and not self.idle(st) and m["phase"] in ("pre", "nak"):
            evs.append(("cancel", "right"))
        if clock.next_expiry(st.D.h) is not None:
            evs += [("expire",), ("advance",)]
        return evs

    def update_model(self, st, ev, out):
        m = dict(st.m)
        pre = dict(st.m)
        out["pre_m"] = pre
        m["sent"] = list(m["sent"])
        v = []
        # an inbound EOF is acknowledged again in whatever step it arrives: not part of any retry procedure
        emitted = [d for d in self.emitted(out) if not (d["T"] == "ACK" and ev[0] == "eof")]
        faults = out.get("D", {}).get("faults", [])
        fins = self.inds(out, "finished")
        c = self.c

        def bad(clause, msg, **d):
            v.append(dict(clause=clause, msg=msg, detail=d))

        if ev[0] == "cancel":
            m["ncancel"] += 1
        stored_before = [tuple(x) for x in pre["stored"]]
        progress = False
        if ev[0] == "fd":
            m["sent"].append(repr(ev))
            if self.inds(out, "file_segment_recv") and not self.exc(out) and pre["md"]:
                new = merge(stored_before + [(ev[1], ev[1] + ev[2])])
                progress = new != merge(stored_before)
                m["stored"] = [list(x) for x in new]
        if ev[0] == "md" and self.inds(out, "metadata_recv"):
            m["md"] = True
            progress = True
        if ev[0] == "eof" and not self.exc(out):
            m["eof"] = True
        proc = pre["proc"]
        if proc is not None and proc["kind"] == "nak":
            # ---- NAK procedure -----------------------------------------------------------------
            p2 = dict(proc)
            t_entry = proc["t"] + (out.get("dt", 0) if ev[0] in ("expire", "advance") else 0)
            p2["t"] = t_entry
            naks = [d for d in emitted if d["T"] == "NAK"]
            lim = [f for f in faults if f["cond"] == "NAK_LIMIT_REACHED"]
            N = c["nak_limit"]
            missing = subtract(c["size"], [tuple(x) for x in m["stored"]]) or (not m["md"])
            if ev[0] == "advance":
                m["proc"] = p2
            elif ev[0] == "cancel" and out.get("ret") is True:
                m["proc"] = None
            elif not missing:
                m["proc"] = None  # everything arrived: the procedure ends (completion judged by C06)
                if lim:
                    bad("C04.nak_limit_spurious", "NAK Limit Reached declared although nothing is missing any more")
            elif progress:
                p2["j"], p2["t"] = 0, 0
                if lim:
                    bad("C04.nak_limit_on_progress", "NAK Limit Reached declared in a call that received missing data")
                m["proc"] = p2
            elif t_entry < NAK_MS:
                if naks:
                    bad("C04.nak_without_expiry", f"NAK sequence re-issued {t_entry} ms after the last one (interval {NAK_MS} ms)")
                if lim:
                    bad("C04.limit_without_expiry", f"NAK Limit Reached declared {t_entry} ms after the last NAK sequence", what="NAK")
                m["proc"] = p2
            else:
                j = proc["j"] + 1
                if j < N:
                    if not naks:
                        bad("C04.no_resend", f"NAK timer expiry {j} of {N}: no NAK sequence re-issued (emitted {[d['T'] for d in emitted]})", what="NAK", n=0)
                    if lim or fins:
                        bad("C04.limit_early", f"NAK Limit Reached declared / transaction ended at expiry {j}, limit is {N}", what="NAK")
                    p2["j"], p2["t"] = j, 0
                    m["proc"] = p2
                else:
                    if len(lim) != 1:
                        bad("C04.limit_declaration", f"NAK timer expiry {j} = limit {N}: {len(lim)} NAK Limit Reached declarations", what="NAK", n=len(lim))
                    if naks:
                        bad("C04.resend_at_limit", f"NAK timer expiry {j} = limit {N}: a NAK sequence was issued once more", what="NAK")
                    m["proc"] = None
                    m["phase"] = "cancelled"
        elif proc is not None:
            # ---- Finished awaiting its ACK ----------------------------------------------------
            res = self.judge_retry(m=m, pre=pre, ev=ev, out=out, emitted=emitted, faults=faults, fins=[], N=c["ack_limit"], interval=ACK_MS,
                                   what="Finished PDU" if proc["kind"] == "fin" else "Finished (cancel) PDU", bad=bad,
                                   is_progress=(ev[0] == "ackfin" and not self.exc(out)), limit_cond="POSITIVE_ACK_LIMIT_REACHED")
            if res == "limit":
                if proc["kind"] == "fin":
                    fp = [d for d in emitted if d["T"] == "FIN" and d["cond"] == "POSITIVE_ACK_LIMIT_REACHED"]
                    if len(fp) != 1 or len(emitted) != 1:
                        bad("C04.cancel_finished", f"positive ACK limit: expected exactly one Finished (Positive ACK Limit Reached) PDU, emitted "
                                                   f"{[(d['T'], d.get('cond')) for d in emitted]}")
                        m["proc"], m["phase"] = None, "end"
                    else:
                        m["proc"] = {"kind": "cancelfin", "pdu": strip(fp[0]), "j": 0, "t": 0}
                else:
                    if not self.idle(st):
                        bad("C04.not_abandoned", f"cancellation exchange timed out but the handler is in step {out['post_step']}")
                    if emitted:
                        bad("C04.emit_on_abandon", f"PDUs {[d['T'] for d in emitted]} emitted when the transaction was abandoned")
                    if fins:
                        bad("C04.finished_on_abandon", "Transaction-Finished issued for an abandoned transaction")
                    m["proc"], m["phase"] = None, "end"
            elif res is None:
                m["proc"], m["phase"] = None, "end"
            else:
                m["proc"] = res
        # ---- procedure starts ---------------------------------------------------------------
        if m["proc"] is None and m["phase"] != "end":
            fp = [d for d in emitted if d["T"] == "FIN"]
            naks = [d for d in emitted if d["T"] == "NAK"]
            if fp and (proc is None or proc["kind"] == "nak"):
                kind = "fin" if fp[0]["cond"] == "NO_ERROR" else "cancelfin"
                m["proc"] = {"kind": kind, "pdu": strip(fp[0]), "j": 0, "t": 0}
                m["phase"] = "fin"
            elif naks and pre["eof"] and proc is None and m["phase"] == "pre":
                m["proc"] = {"kind": "nak", "j": 0, "t": 0}
                m["phase"] = "nak"
        if self.idle(st) and (pre["md"] or pre["eof"] or pre["sent"]):
            m["phase"], m["proc"] = "end", None
        out["viol"] = v
        st.m = m

    def check(self, st, ev, out):
        vs = [Violation(P, x["clause"], f"receiver {ev} ({out['pre_step']} -> {out['post_step']}): {x['msg']}", side="receiver", **x["detail"]) for x in out.get("viol", [])]
        e = self.exc(out)
        if e and not e["protocol"]:
            vs.append(Violation(P, "C04.exception", f"receiver {ev}: {e['exc']} in {e['site']}", exc=e["exc"], site=e["site"]))
        return vs

    def quiet(self, obs):
        return "D" not in obs and obs.get("pre_step") == obs.get("post_step") and "ret" not in obs and "fs" not in obs

    def terminal_check(self, st):
        step = st.D.h.states.step.name
        # waiting for file data / EOF without any timer is the documented unimplemented inactivity handling
        if self.idle(st) or step in ("RECEIVING_FILE_DATA", "WAITING_FOR_METADATA") and not st.m["eof"]:
            return []
        return [Violation(P, "C04.hang", f"receiver stuck in step {step} although every timer has run out (phase {st.m['phase']})", side="receiver", step=step)]

    def cycle_detail(self, evs):
        return {"side": "receiver"}

    def outcome(self, st):
        return [st.D.h.states.step.name, st.m["phase"]]


def configs(tier):
    src, dst = [], []
    limits = (1, 2, 3)
    for N, size in itertools.product(limits, (0, 3)):
        src.append(dict(mode="ack", size=size, seg=2, ack_limit=N, closure=False))
    for na, nn in itertools.product(limits, limits):
        if tier == "quick" and (na, nn) not in ((1, 1), (2, 2), (3, 2), (2, 3), (1, 3)):
            continue
        for nak in ("imm", "def"):
            dst.append(dict(mode="ack", size=3, seg=2, ack_limit=na, nak_limit=nn, nak=nak, closure=False))
    # NAK sequences of several PDUs (one request fits per PDU, two non-adjacent gaps)
    for nn, nak in itertools.product((2, 3), ("imm", "def")):
        dst.append(dict(mode="ack", size=5, seg=2, ack_limit=2, nak_limit=nn, nak=nak, closure=False, mpl=27, only_middle=True))
    return src, dst


def run(tier: str) -> int:
    run_ = Run(P, tier, assumptions=[
        "default fault handlers; limits N in {1,2,3}; timer intervals 7 s (positive ACK) and 11 s (NAK)",
        "the reference automata keep their own clock (time since the last transmission); an expiry call is a state-machine call entered at least one interval after the last transmission",
        "progress = the awaited ACK, or a File Data / Metadata PDU that supplies something missing; duplicates of stored data are not offered",
        "the sender awaiting the Finished PDU after its EOF was acknowledged and the receiver awaiting file data / EOF are the two documented unimplemented inactivity waits: allowed terminal states",
    ])
    src, dst = configs(tier)
    worlds = [C04Src(**kw) for kw in src] + [C04Dst(**kw) for kw in dst]
    run_.bounds = {"sender_configs": len(src), "receiver_configs": len(dst), "limits": [1, 2, 3], "file": "3 bytes, 2 segments"}
    results = explore_many(worlds, procs=NPROC, cycle_clause=(P, "C04.cycle"), validate_stride=997, validate_terminals=3, n_samples=1, max_states=1_000_000)
    run_.add_all(results)
    return run_.finish(rule="complete reachable graph per configuration: the peer falls silent at every point (or answers after j<N expiries), all orders of timer expiry, time passing without a call, ticks and PDU arrival; step-wise agreement with the reference retry automata; terminal states classified; no cycle")
