"""Breadth-first explicit-state exploration over live objects (DESIGN.md 2).

A World supplies initial/enabled/apply/check and optionally terminal_check; the engine does the
search, deduplication, stutter/terminal classification, cycle detection, shortest counterexamples,
root-replay validation and parallel expansion.
"""
from __future__ import annotations

import hashlib
import json
import multiprocessing as mp
import os
import time
import zlib
from collections import Counter

from . import NPROC, canon, clock, sandbox, snapshot


def _tup(x):
    if isinstance(x, list):
        return tuple(_tup(y) for y in x)
    return x


class HarnessError(Exception):
    """Nondeterminism / replay divergence / internal error: exit code 2, never a verdict."""


class Violation(dict):
    """{'property','clause','detail':{...},'msg'}"""

    def __init__(self, prop, clause, msg, **detail):
        super().__init__(property=prop, clause=clause, msg=msg, detail=detail)

    def signature(self) -> str:
        return _sig(self)


def _sig(v) -> str:
    blob = json.dumps([v["property"], v["clause"], v["detail"]], sort_keys=True, default=str)
    return v["clause"].replace(".", "_") + "-" + hashlib.blake2b(blob.encode(), digest_size=6).hexdigest()


class World:
    """Base class. A world instance is immutable configuration; the mutable state is ``st``."""

    name = "world"
    uses_sandbox = True
    timing = "free"  # 'free' | 'urgent'

    def __init__(self, **cfg):
        self.cfg = cfg

    # ---- to be provided ----------------------------------------------------------------------
    def build(self):
        """Construct the initial live state (fresh objects). The sandbox is empty and the
        registry pristine when this is called."""
        raise NotImplementedError

    def enabled(self, st) -> list:
        raise NotImplementedError

    def apply(self, st, ev):
        """Execute one event on the live state; return JSON-able observations."""
        raise NotImplementedError

    def check(self, st, ev, obs) -> list:
        return []

    def is_late(self, ev) -> bool:
        """Late events are only enabled when every other event is a stutter (urgent timing)."""
        return False

    def is_free(self, ev) -> bool:
        """Free events are always explored and do not block late events (e.g. releasing a delayed
        PDU: time may pass while it is held back)."""
        return False

    def quiet(self, obs) -> bool:
        """True if the observations show no externally visible activity (used for stutter)."""
        return not obs

    def terminal_check(self, st) -> list:
        """Violations if ``st`` is a terminal state (no non-stutter successor) but not a goal."""
        return []

    def outcome(self, st):
        """A small hashable summary of a terminal state, for the distinct-outcomes count."""
        return None

    def state_objects(self, st):
        return st

    def describe(self) -> dict:
        return {"world": self.name, **self.cfg}

    # ---- provided ----------------------------------------------------------------------------
    def initial(self):
        snapshot.REGISTRY.reset()
        if self.uses_sandbox:
            sandbox.invalidate()
            sandbox.restore(())
        snapshot.set_consts(())
        canon.reset_consts()
        st = self.build()
        snapshot.set_consts(self.consts(st))
        sandbox.invalidate()
        return st

    def consts(self, st) -> list:
        """Configuration objects (never mutated by the code under test): pickled by reference."""
        return []

    def key(self, st) -> bytes:
        tree = sandbox.tree() if self.uses_sandbox else ()
        delta = snapshot.consts_delta() if snapshot.CONSTS else {}
        return canon.key(self.state_objects(st), snapshot.REGISTRY.contents(), tree, delta)

    def snap(self, st) -> bytes:
        tree = sandbox.tree() if self.uses_sandbox else ()
        delta = snapshot.consts_delta() if snapshot.CONSTS else {}
        return zlib.compress(snapshot.dumps((st, snapshot.REGISTRY.save(), tree, delta)), 1)

    def restore(self, blob: bytes):
        st, reg, tree, delta = snapshot.loads(zlib.decompress(blob))
        snapshot.REGISTRY.load(reg)
        if snapshot.CONSTS:
            snapshot.consts_restore(delta)
        if self.uses_sandbox:
            sandbox.restore(tree)
        return st


class TransitionTimeout(BaseException):
    """The code under test did not return from one transition within the watchdog time."""


WATCHDOG_S = float(os.environ.get("XMC_WATCHDOG_S", "10"))


def _on_alarm(signum, frame):
    raise TransitionTimeout()


def guarded_apply(world, st, ev):
    """world.apply under a watchdog: a transition that does not return (an unbounded loop in the code
    under test) becomes a '<property>.hang' violation instead of hanging the check."""
    import signal

    old = signal.signal(signal.SIGALRM, _on_alarm)
    signal.setitimer(signal.ITIMER_REAL, WATCHDOG_S)
    try:
        return world.apply(st, ev)
    finally:
        signal.setitimer(signal.ITIMER_REAL, 0)
        signal.signal(signal.SIGALRM, old)


def hang_violation(world, ev):
    prop = getattr(world, "prop", None)
    if prop is None:
        raise HarnessError(f"transition {ev} did not return within {WATCHDOG_S}s in world {world.describe()}")
    return Violation(prop, f"{prop}.hang", f"event {ev} did not return within {WATCHDOG_S:.0f} s (unbounded loop in the code under test)",
                     ev=str(ev[0]) if isinstance(ev, tuple) else str(ev))


def setup_process():
    clock.install()
    if not snapshot.REGISTRY.objs and not snapshot.REGISTRY.pristine:
        snapshot.REGISTRY.scan()
    import logging

    logging.disable(logging.CRITICAL)
    if mp.current_process().name == "MainProcess":
        sandbox.remove_stale()
    try:  # a runaway allocation in the code under test becomes a MemoryError, not an OOM kill
        import resource

        soft, hard = resource.getrlimit(resource.RLIMIT_AS)
        # the main process holds the state table of the world it coordinates (about 20 kB per state for the chaos worlds): it gets a
        # larger budget than the workers, which only run transitions of the code under test
        gb = int(os.environ.get("XMC_MAIN_MEM_GB", "28")) if mp.current_process().name == "MainProcess" else 6
        lim = gb * 1024 ** 3
        if soft == resource.RLIM_INFINITY or soft != lim:
            resource.setrlimit(resource.RLIMIT_AS, (lim if hard == resource.RLIM_INFINITY else min(lim, hard), hard))
    except Exception:  # noqa: BLE001
        pass


def obs_digest(obs) -> str:
    return hashlib.blake2b(json.dumps(obs, sort_keys=True, default=str).encode(), digest_size=6).hexdigest()


def expand(world: World, blob: bytes, pre_key: bytes):
    """All successors of one state. Returns (succs, terminal) where each successor is
    (event, obs_digest, violations, key, blob|None, stutter)."""
    st = world.restore(blob)
    evs = world.enabled(st)
    free = [e for e in evs if world.is_free(e)]
    normal = [e for e in evs if not world.is_late(e) and not world.is_free(e)]
    late = [e for e in evs if world.is_late(e) and not world.is_free(e)]
    succs = []
    all_stutter = True
    hung = False
    for group in (normal, late, free):
        if group is late and not all_stutter:
            continue
        for ev in group:
            if hung:
                break  # one hang decides the run; do not wait for the watchdog once per event
            st = world.restore(blob)
            sandbox.invalidate()
            try:
                obs = guarded_apply(world, st, ev)
                sandbox.invalidate()
                viols = world.check(st, ev, obs)
            except TransitionTimeout:
                sandbox.invalidate()
                obs = {"hang": True}
                viols = [hang_violation(world, ev)]
                hung = True
            k = world.key(st)
            stutter = k == pre_key and world.quiet(obs) and not viols
            if not stutter:
                all_stutter = False
            nb = None if (stutter or viols) else world.snap(st)
            succs.append((ev, obs_digest(obs), viols, k, nb, stutter, k == pre_key))
    term_viols = []
    outcome = None
    if all_stutter:
        st = world.restore(blob)
        term_viols = world.terminal_check(st)
        outcome = world.outcome(st)
    return succs, all_stutter, term_viols, outcome


_W = None


def _pool_init(world):
    global _W
    _W = world
    sandbox._ROOT = None  # force a per-process sandbox
    setup_process()


def _pool_expand(chunk):
    out = []
    for idx, blob, k in chunk:
        out.append((idx, expand(_W, blob, k)))
    return out


class Result:
    def __init__(self, world):
        self.world = world
        self.states = 0
        self.transitions = 0
        self.stutters = 0
        self.terminals = 0
        self.max_depth = 0
        self.cap_hit = False
        self.cycles = 0
        self.validated = 0
        self.violations: list = []  # (violation, path, kind)
        self.outcomes: Counter = Counter()
        self.samples: list = []
        self.wall = 0.0
        self.wall_cap = False

    def merge_counts(self, other):
        for a in ("states", "transitions", "stutters", "terminals", "cycles", "validated"):
            setattr(self, a, getattr(self, a) + getattr(other, a))
        self.max_depth = max(self.max_depth, other.max_depth)
        self.cap_hit = self.cap_hit or other.cap_hit


def replay_path(world: World, path, want_key=None, want_digests=None):
    """Re-execute an event path from the initial state on fresh objects (no snapshots)."""
    st = world.initial()
    trace = []
    for i, ev in enumerate(path):
        sandbox.invalidate()
        obs = world.apply(st, ev)
        sandbox.invalidate()
        trace.append((ev, obs))
        if want_digests is not None and obs_digest(obs) != want_digests[i]:
            raise HarnessError(
                f"replay divergence at step {i} ev={ev}: observations differ from the explored ones "
                f"(world {world.describe()})")
    k = world.key(st)
    if want_key is not None and k != want_key:
        raise HarnessError(f"replay divergence: final key differs after {path} in {world.describe()}")
    return st, trace


def explore(world: World, *, max_states=2_000_000, max_depth=None, procs=1, validate_stride=211,
            check_cycles=True, cycle_clause=None, n_samples=2, progress=None, validate_terminals=200, max_wall=None) -> Result:
    """Level-synchronous BFS. ``cycle_clause`` = (property, clause) to report non-progress cycles."""
    t0 = time.time()
    setup_process()
    res = Result(world)
    st = world.initial()
    k0 = world.key(st)
    b0 = world.snap(st)
    # events must survive the JSON round trip of replay files unchanged
    for ev in world.enabled(st):
        back = _tup(json.loads(json.dumps(ev)))
        if back != ev:
            raise HarnessError(f"event {ev!r} of world {world.describe()} is not JSON-safe (comes back as {back!r})")
    index = {k0: 0}
    parent = [(-1, None, None)]  # idx -> (parent idx, event, obs digest)
    depth = [0]
    edges: list = []  # (src, dst) non-stutter
    frontier = [(0, b0, k0)]
    pool = None
    if procs > 1:
        ctx = mp.get_context("fork")
        pool = ctx.Pool(procs, initializer=_pool_init, initargs=(world,))
    terminal_idx = []
    viol_seen = set()
    try:
        d = 0
        hang_seen = False
        while frontier:
            if max_depth is not None and d >= max_depth:
                res.cap_hit = True
                break
            if max_wall is not None and time.time() - t0 > max_wall:
                res.cap_hit = True  # wall-clock budget of this world used up: reported as a cap, not as exhaustive
                res.wall_cap = True
                break
            if pool is not None and len(frontier) >= 2:
                n = max(1, min(64, -(-len(frontier) // (procs * 4))))
                chunks = [frontier[i:i + n] for i in range(0, len(frontier), n)]
                results = []
                for part in pool.imap(_pool_expand, chunks):
                    results.extend(part)
            else:
                results = [(idx, expand(world, blob, k)) for idx, blob, k in frontier]
            nxt = []
            for idx, (succs, terminal, term_viols, outcome) in results:
                if terminal:
                    res.terminals += 1
                    terminal_idx.append(idx)
                    res.outcomes[json.dumps(outcome, sort_keys=True, default=str)] += 1
                    for v in term_viols:
                        s = _sig(v)
                        if s not in viol_seen:
                            viol_seen.add(s)
                            res.violations.append((v, idx, None, "terminal"))
                for ev, dig, viols, k, nb, stutter, samekey in succs:
                    res.transitions += 1
                    if viols and any(v["clause"].endswith(".hang") for v in viols):
                        hang_seen = True
                    if stutter:
                        res.stutters += 1
                        continue
                    if viols:
                        for v in viols:
                            s = _sig(v)
                            if s not in viol_seen:
                                viol_seen.add(s)
                                res.violations.append((v, idx, ev, "transition"))
                        continue
                    j = index.get(k)
                    if j is None:
                        if len(index) >= max_states:
                            res.cap_hit = True
                            continue
                        j = len(index)
                        index[k] = j
                        parent.append((idx, ev, dig))
                        depth.append(depth[idx] + 1)
                        nxt.append((j, nb, k))
                    edges.append((idx, j, ev))
            frontier = [] if hang_seen else nxt
            d += 1
            if progress:
                progress(d, len(index), res.transitions)
        res.states = len(index)
        res.max_depth = max(depth)

        def path_to(i):
            p, digs = [], []
            while i > 0:
                pi, ev, dg = parent[i]
                p.append(ev)
                digs.append(dg)
                i = pi
            return p[::-1], digs[::-1]

        keys = [None] * len(index)
        for k, i in index.items():
            keys[i] = k

        # cycles (non-progress): SCC over non-stutter edges
        if check_cycles:
            cyc = find_cycle(len(index), edges)
            if cyc is not None:
                res.cycles = 1
                if cycle_clause is not None:
                    entry = cyc[0][0]
                    cyc_events = [ev for _, ev in cyc]
                    detail = world.cycle_detail(cyc_events) if hasattr(world, "cycle_detail") else {}
                    v = Violation(cycle_clause[0], cycle_clause[1],
                                  "non-progress cycle: the system can keep changing state / emitting PDUs forever",
                                  **detail)
                    res.violations.append((v, entry, cyc_events, "cycle"))

        # root-replay validation: terminals, violating states, stride of interior states
        to_validate = set(terminal_idx[:validate_terminals])
        to_validate.update(i for (_, i, _, _) in res.violations)
        to_validate.update(range(0, len(index), validate_stride))
        for i in sorted(to_validate):
            p, digs = path_to(i)
            replay_path(world, p, keys[i], digs)
            res.validated += 1

        # finalise violations with paths
        final = []
        for v, idx, extra, kind in res.violations:
            p, _ = path_to(idx)
            if kind == "transition":
                final.append((v, p + [extra], kind, None))
            elif kind == "cycle":
                final.append((v, p, kind, extra))
            else:
                final.append((v, p, kind, None))
        res.violations = final

        # samples: deepest terminal paths (with observations)
        for i in sorted(terminal_idx, key=lambda x: -depth[x])[:n_samples]:
            p, _ = path_to(i)
            _, trace = replay_path(world, p)
            res.samples.append({"world": world.describe(), "events": [list(e) if isinstance(e, tuple) else e for e, _ in trace],
                                "observations": [o for _, o in trace][-6:]})
        if not res.samples and len(index) > 1:
            i = len(index) - 1
            p, _ = path_to(i)
            _, trace = replay_path(world, p)
            res.samples.append({"world": world.describe(), "events": [list(e) if isinstance(e, tuple) else e for e, _ in trace],
                                "observations": [o for _, o in trace][-6:]})
    finally:
        if pool is not None:
            pids = [p.pid for p in getattr(pool, "_pool", [])]
            pool.terminate()
            pool.join()
            sandbox.remove_for_pids(pids)
    res.wall = time.time() - t0
    return res


def find_cycle(n: int, edges: list):
    """Return [(node, event to next node), ...] forming a cycle (or None). Iterative DFS."""
    adj = [[] for _ in range(n)]
    for a, b, ev in edges:
        adj[a].append((b, ev))
    color = bytearray(n)  # 0 white 1 grey 2 black
    for s in range(n):
        if color[s]:
            continue
        stack = [(s, 0)]
        color[s] = 1
        pathn = [s]
        pathe = []
        while stack:
            u, i = stack[-1]
            if i < len(adj[u]):
                stack[-1] = (u, i + 1)
                v, ev = adj[u][i]
                if color[v] == 0:
                    color[v] = 1
                    stack.append((v, 0))
                    pathn.append(v)
                    pathe.append(ev)
                elif color[v] == 1:
                    j = pathn.index(v)
                    nodes = pathn[j:]
                    evs = pathe[j:] + [ev]
                    return list(zip(nodes, evs))
            else:
                color[u] = 2
                stack.pop()
                pathn.pop()
                if pathe:
                    pathe.pop()
    return None


def explore_many(worlds, procs=NPROC, **kw):
    """Explore many (small) worlds, one per task, in a process pool. Returns list of Results with
    the world attached (results are plain data)."""
    setup_process()
    if procs <= 1 or len(worlds) <= 1:
        return [explore(w, **kw) for w in worlds]
    ctx = mp.get_context("fork")
    with ctx.Pool(procs, initializer=_many_init, initargs=(kw,)) as pool:
        pids = [p.pid for p in getattr(pool, "_pool", [])]
        out = pool.map(_many_run, worlds, chunksize=max(1, min(8, len(worlds) // (procs * 4) or 1)))
    sandbox.remove_for_pids(pids)
    return out


_KW = {}


def _many_init(kw):
    global _KW
    _KW = kw
    sandbox._ROOT = None
    setup_process()


def _many_run(world):
    r = explore(world, **_KW)
    return r
