"""Snapshots of live worlds by pickle, with a registry of process-global mutable state
(DESIGN.md 2.1).

Registry objects (mutable objects reachable from module globals, class attributes, dataclass field
defaults and function defaults of cfdppy) are pickled *by reference*; their content is stored in
the snapshot, restored *in place* and is part of the canonical key.
"""
from __future__ import annotations

import copyreg
import dataclasses
import enum
import io
import logging
import pickle
import sys
import types

_IMMUT = (int, float, str, bytes, bool, type(None), enum.Enum, tuple, frozenset, type,
          types.FunctionType, types.BuiltinFunctionType, types.ModuleType, property, classmethod,
          staticmethod, logging.Logger, types.MethodDescriptorType, types.WrapperDescriptorType,
          types.GetSetDescriptorType, types.MemberDescriptorType)

PREFIXES = ("cfdppy",)


def _is_mutable_candidate(v) -> bool:
    if isinstance(v, _IMMUT):
        return False
    if isinstance(v, (list, dict, set, bytearray)):
        return True
    mod = getattr(type(v), "__module__", "")
    if mod.startswith(PREFIXES) or mod.startswith("spacepackets"):
        return hasattr(v, "__dict__")
    return False


class Registry:
    def __init__(self):
        self.names: list[str] = []
        self.objs: list = []
        self.by_id: dict[int, int] = {}
        self.pristine: bytes = b""

    def _add(self, name: str, obj) -> None:
        if id(obj) in self.by_id:
            return
        self.by_id[id(obj)] = len(self.objs)
        self.names.append(name)
        self.objs.append(obj)

    def scan(self) -> None:
        import cfdppy  # noqa: F401
        import cfdppy.handler  # noqa: F401

        for mname in sorted(sys.modules):
            if not mname.startswith(PREFIXES):
                continue
            mod = sys.modules[mname]
            if mod is None:
                continue
            for gname in sorted(vars(mod)):
                if gname.startswith("__"):
                    continue
                g = vars(mod)[gname]
                if isinstance(g, type) and g.__module__ == mname:
                    self._scan_class(f"{mname}.{gname}", g)
                elif isinstance(g, types.FunctionType) and g.__module__ == mname:
                    self._scan_func(f"{mname}.{gname}", g)
                elif _is_mutable_candidate(g) and not isinstance(g, enum.EnumMeta):
                    if gname in ("TYPE_CHECKING",):
                        continue
                    self._add(f"{mname}.{gname}", g)
        self.pristine = self.save()

    def _scan_func(self, name: str, f) -> None:
        for i, d in enumerate(f.__defaults__ or ()):
            if _is_mutable_candidate(d):
                self._add(f"{name}.__defaults__[{i}]", d)
        for k, d in sorted((f.__kwdefaults__ or {}).items()):
            if _is_mutable_candidate(d):
                self._add(f"{name}.__kwdefaults__[{k}]", d)

    def _scan_class(self, name: str, c) -> None:
        if isinstance(c, enum.EnumMeta):
            return
        if dataclasses.is_dataclass(c):
            for f in dataclasses.fields(c):
                if f.default is not dataclasses.MISSING and _is_mutable_candidate(f.default):
                    self._add(f"{name}.{f.name}:default", f.default)
        for aname in sorted(vars(c)):
            a = vars(c)[aname]
            if aname in ("__dict__", "__weakref__", "__dataclass_fields__", "__dataclass_params__",
                         "__annotations__", "__match_args__", "__abstractmethods__", "_abc_impl",
                         "__parameters__", "__orig_bases__"):
                continue
            if isinstance(a, types.FunctionType):
                self._scan_func(f"{name}.{aname}", a)
            elif isinstance(a, (classmethod, staticmethod)):
                self._scan_func(f"{name}.{aname}", a.__func__)
            elif _is_mutable_candidate(a):
                self._add(f"{name}.{aname}", a)

    # -- content save / restore in place -------------------------------------------------------
    def save(self) -> bytes:
        content = []
        for o in self.objs:
            if isinstance(o, list):
                content.append(("l", list(o)))
            elif isinstance(o, dict):
                content.append(("d", dict(o)))
            elif isinstance(o, set):
                content.append(("s", set(o)))
            elif isinstance(o, bytearray):
                content.append(("b", bytes(o)))
            else:
                content.append(("o", dict(o.__dict__)))
        return dumps(content)

    def load(self, blob: bytes) -> None:
        content = loads(blob)
        for o, (kind, c) in zip(self.objs, content):
            if kind == "l":
                o[:] = c
            elif kind == "d":
                o.clear()
                o.update(c)
            elif kind == "s":
                o.clear()
                o.update(c)
            elif kind == "b":
                o[:] = c
            else:
                o.__dict__.clear()
                o.__dict__.update(c)

    def reset(self) -> None:
        self.load(self.pristine)

    def contents(self) -> list:
        """For the canonical key."""
        out = []
        for n, o in zip(self.names, self.objs):
            if isinstance(o, (list, dict, set, bytearray)):
                out.append((n, o))
            else:
                out.append((n, o.__dict__))
        return out


REGISTRY = Registry()


# Per-process table of *configuration* objects of the current world (DESIGN.md 2.1): pickled by
# reference (index), so that identity is stable across snapshots and canon can cache their key.
CONSTS: list = []
CONST_IDS: dict = {}


CONST_PRISTINE: list = []  # content of every configuration object right after the world was built
CONST_CUR: list = []       # content as of the last consts_delta() / consts_restore()
CONST_FLAT: list = []      # True: only scalars / enums / other configuration objects inside -> shallow comparison is exact

_FLAT_OK = (int, float, str, bytes, bool, type(None), enum.Enum)


def _content(o):
    return dict(o.__dict__)


def _is_flat(o) -> bool:
    for v in o.__dict__.values():
        if isinstance(v, _FLAT_OK) or id(v) in CONST_IDS:
            continue
        if type(v).__module__.startswith("spacepackets.util"):  # UnsignedByteField & co: value objects
            continue
        return False
    return True


def _sig(i, o):
    return _content(o) if CONST_FLAT[i] else dumps(_content(o))


def set_consts(objs) -> None:
    CONSTS[:] = list(objs)
    CONST_IDS.clear()
    for i, o in enumerate(CONSTS):
        CONST_IDS.setdefault(id(o), i)
    CONST_FLAT[:] = [_is_flat(o) for o in CONSTS]
    CONST_PRISTINE[:] = [_sig(i, o) for i, o in enumerate(CONSTS)]
    CONST_CUR[:] = list(CONST_PRISTINE)


def consts_delta() -> dict:
    """Configuration objects whose content differs from the pristine one (normally none): index -> pickled
    content. The code under test is not supposed to write into its configuration, but if it does, that is
    state: it is saved in snapshots, restored, and part of the canonical key."""
    delta = {}
    for i, o in enumerate(CONSTS):
        cur = _sig(i, o)
        CONST_CUR[i] = cur
        if cur != CONST_PRISTINE[i]:
            delta[i] = cur if isinstance(cur, bytes) else dumps(cur)
    return delta


def consts_restore(delta: dict) -> None:
    for i, o in enumerate(CONSTS):
        want = delta.get(i)
        if want is None:
            if CONST_CUR[i] == CONST_PRISTINE[i]:
                continue
            pr = CONST_PRISTINE[i]
            content = dict(pr) if isinstance(pr, dict) else loads(pr)
            o.__dict__.clear()
            o.__dict__.update(content)
            CONST_CUR[i] = pr
        else:
            content = loads(want)
            o.__dict__.clear()
            o.__dict__.update(content)
            CONST_CUR[i] = content if CONST_FLAT[i] else want


def _const_lookup(i):
    return CONSTS[i]


def _reg_lookup(i):
    return REGISTRY.objs[i]


class _PSlow(pickle.Pickler):
    """General case: the registry contains builtin containers -> per-object persistent_id callback."""

    def persistent_id(self, obj):
        i = REGISTRY.by_id.get(id(obj))
        if i is not None:
            return ("xmc-reg", i)
        i = CONST_IDS.get(id(obj))
        if i is not None:
            return ("xmc-const", i)
        return None


def _reduce_special(obj):
    i = REGISTRY.by_id.get(id(obj))
    if i is not None:
        return (_reg_lookup, (i,))
    i = CONST_IDS.get(id(obj))
    if i is not None:
        return (_const_lookup, (i,))
    return obj.__reduce_ex__(4)


class _PFast(pickle.Pickler):
    """All registry / configuration objects are instances of non-builtin classes: a per-type
    reducer (C-speed dispatch) replaces the per-object Python callback."""

    def __init__(self, f, protocol):
        super().__init__(f, protocol=protocol)
        table = copyreg.dispatch_table.copy()
        for o in REGISTRY.objs:
            table[type(o)] = _reduce_special
        for o in CONSTS:
            table[type(o)] = _reduce_special
        self.dispatch_table = table


class _U(pickle.Unpickler):
    def persistent_load(self, pid):
        if pid[0] == "xmc-reg":
            return REGISTRY.objs[pid[1]]
        if pid[0] == "xmc-const":
            return CONSTS[pid[1]]
        raise pickle.UnpicklingError(f"bad persistent id {pid!r}")


def _fast_ok() -> bool:
    return all(not isinstance(o, (list, dict, set, bytearray, tuple)) for o in REGISTRY.objs) and \
        all(not isinstance(o, (list, dict, set, bytearray, tuple)) for o in CONSTS)


def dumps(obj) -> bytes:
    f = io.BytesIO()
    (_PFast if _fast_ok() else _PSlow)(f, protocol=4).dump(obj)
    return f.getvalue()


def loads(blob: bytes):
    return _U(io.BytesIO(blob)).load()


def clone(obj):
    return loads(dumps(obj))
