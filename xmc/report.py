"""Violations -> replay files, known-findings matching, VIOLATION lines, evidence (DESIGN.md 2.8, 6)."""
from __future__ import annotations

import json
import os
import sys
import time

from . import SEED, VERIF
from .engine import HarnessError, Result, World, _sig, replay_path, setup_process

KNOWN = os.path.join(VERIF, "known_findings.json")


def load_known():
    if not os.path.exists(KNOWN):
        return []
    with open(KNOWN) as f:
        return json.load(f).get("findings", [])


def _matches(entry, v) -> bool:
    if entry.get("status") != "open":
        return False
    if entry["property"] != v["property"] or entry["clause"] != v["clause"]:
        return False
    for k, want in entry.get("match", {}).items():
        if json.loads(json.dumps(v["detail"].get(k), default=str)) != want:
            return False
    return True


def world_ref(world: World) -> dict:
    return {"module": type(world).__module__, "class": type(world).__name__, "cfg": world.cfg}


def jsonable(x):
    return json.loads(json.dumps(x, default=str))


class Run:
    """Accumulates what one check run covered and found."""

    def __init__(self, prop: str, tier: str, assumptions=None):
        self.prop = prop
        self.tier = tier
        self.t0 = time.time()
        self.states = 0
        self.transitions = 0
        self.stutters = 0
        self.terminals = 0
        self.validated = 0
        self.cycles = 0
        self.max_depth = 0
        self.cap_hit = False
        self.configs = 0
        self.samples = []
        self.outcomes = {}
        self.violations = []  # dicts ready for replay files
        self.assumptions = list(assumptions or [])
        self.bounds = {}
        self.extra = {}
        self.notes = []

    def add(self, res: Result, keep_samples=1):
        if os.environ.get("XMC_VERBOSE"):
            print(f"  .. {res.world.cfg} states={res.states} trans={res.transitions} wall={res.wall:.1f}s viol={len(res.violations)}", flush=True)
        self.configs += 1
        self.states += res.states
        self.transitions += res.transitions
        self.stutters += res.stutters
        self.terminals += res.terminals
        self.validated += res.validated
        self.cycles += res.cycles
        self.max_depth = max(self.max_depth, res.max_depth)
        self.cap_hit = self.cap_hit or res.cap_hit
        for k, n in res.outcomes.items():
            self.outcomes[k] = self.outcomes.get(k, 0) + n
        if len(self.samples) < 4:
            self.samples.extend(res.samples[:keep_samples])
        for v, path, kind, cyc in res.violations:
            self.violations.append({
                "property": v["property"], "clause": v["clause"], "msg": v["msg"],
                "detail": jsonable(v["detail"]), "kind": kind, "world": world_ref(res.world),
                "events": jsonable(path), "cycle": jsonable(cyc), "seed": SEED,
            })

    def found_something(self) -> bool:
        """True once an (unlisted or listed) violation was recorded: quick tiers skip their remaining large
        worlds then - the verdict is already decided, and a defect may make later graphs unboundedly large."""
        return bool(self.violations)

    def skip(self, world):
        self.extra.setdefault("skipped_after_violation", []).append(world.describe())

    def add_all(self, results, **kw):
        for r in results:
            self.add(r, **kw)

    def finish(self, *, exhaustive=None, rule="") -> int:
        known = load_known()
        wall = time.time() - self.t0
        rep_dir = os.path.join(os.environ.get("XMC_REPLAY_DIR") or os.path.join(VERIF, "replays"), self.prop)
        unlisted = 0
        seen_known = {}
        seen_sig = set()
        lines = []
        for v in self.violations:
            if v["property"] != self.prop:
                # a clause of another property surfaced in this world: report under that id
                pass
            sig = _sig(v)
            if sig in seen_sig:
                continue
            seen_sig.add(sig)
            hit = next((e for e in known if _matches(e, v)), None)
            if hit is not None:
                seen_known.setdefault(hit.get("id", hit["clause"]), (hit, v))
                continue
            os.makedirs(rep_dir, exist_ok=True)
            path = os.path.join(rep_dir, sig + ".json")
            with open(path, "w") as f:
                json.dump(v, f, indent=1, sort_keys=True)
            # a violation is only reported after the standalone replayer reproduced it twice
            from .replay import replay_file

            ok1, _ = replay_file(path, quiet=True)
            ok2, _ = replay_file(path, quiet=True)
            if not (ok1 and ok2):
                raise HarnessError(f"violation {sig} did not reproduce in the standalone replayer: {path}")
            unlisted += 1
            lines.append(f"VIOLATION property={v['property']} replay={path}")
            lines.append(f"  clause={v['clause']} {v['msg']} detail={json.dumps(v['detail'], sort_keys=True)}")
        for hid, (hit, v) in sorted(seen_known.items()):
            print(f"KNOWN-FINDING: property={hit['property']} {hit.get('description', hit['clause'])}")
        for ln in lines:
            print(ln)
        exh = (not self.cap_hit) if exhaustive is None else (exhaustive and not self.cap_hit)
        ev = {
            "property_id": self.prop,
            "tier": self.tier,
            "seed": SEED,
            "level": "model_checking",
            "coverage": {
                "states": self.states,
                "transitions": self.transitions,
                "traces_validated_against_impl": self.validated,
                "samples": self.samples[:4] or [{"note": "no sample trace"}],
                "exhaustive": bool(exh),
                "configurations": self.configs,
                "stutter_transitions": self.stutters,
                "terminal_states": self.terminals,
                "distinct_outcomes": len(self.outcomes),
                "outcomes": dict(sorted(self.outcomes.items(), key=lambda kv: -kv[1])[:12]),
                "cycles": self.cycles,
                "max_depth": self.max_depth,
                "cap_hit": self.cap_hit,
                "bounds": self.bounds,
                "rule": rule,
                "known_findings_seen": sorted(seen_known),
                **self.extra,
            },
            "assumptions": self.assumptions,
            "wall_s": round(wall, 2),
            "violations": unlisted,
        }
        ev_dir = os.environ.get("XMC_EVIDENCE_DIR") or os.path.join(VERIF, "evidence")  # override: mutant screening only
        os.makedirs(ev_dir, exist_ok=True)
        with open(os.path.join(ev_dir, f"{self.prop}.json"), "w") as f:
            json.dump(ev, f, indent=1, sort_keys=True, default=str)
        print(f"[{self.prop}/{self.tier}] configs={self.configs} states={self.states} transitions={self.transitions} "
              f"terminals={self.terminals} outcomes={len(self.outcomes)} validated={self.validated} "
              f"cycles={self.cycles} cap_hit={self.cap_hit} known={len(seen_known)} violations={unlisted} "
              f"wall={wall:.1f}s")
        sys.stdout.flush()
        return 1 if unlisted else 0
