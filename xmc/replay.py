"""Standalone replayer: rebuilds the world named in a replay file, applies the recorded events to
freshly constructed real objects (no explorer, no snapshots for the path) and re-evaluates the
oracle.  Usage: python -m xmc.replay FILE   (exit 1 + VIOLATION line if the violation reproduces)"""
from __future__ import annotations

import importlib
import json
import sys

from .engine import _sig, setup_process


def _tup(x):
    if isinstance(x, list):
        return tuple(_tup(y) for y in x)
    return x


def build_world(ref):
    mod = importlib.import_module(ref["module"])
    return getattr(mod, ref["class"])(**ref["cfg"])


def replay_file(path: str, quiet=False):
    setup_process()
    with open(path) as f:
        rec = json.load(f)
    world = build_world(rec["world"])
    events = [_tup(e) for e in rec["events"]]
    st = world.initial()
    found = []
    log = []
    from . import sandbox

    from .engine import TransitionTimeout, guarded_apply, hang_violation

    for i, ev in enumerate(events):
        sandbox.invalidate()
        if ev not in [_tup(json.loads(json.dumps(e))) for e in world.enabled(st)]:
            # on another tree the recorded path may simply not exist any more
            if not quiet:
                print(f"not reproduced: event {i} {ev} is not enabled on this tree")
            return False, False
        try:
            obs = guarded_apply(world, st, ev)
            sandbox.invalidate()
            vs = world.check(st, ev, obs)
        except TransitionTimeout:
            obs = {"hang": True}
            vs = [hang_violation(world, ev)]
        log.append((ev, obs))
        if vs and i == len(events) - 1 and rec["kind"] == "transition":
            found = vs
        elif vs and rec["kind"] != "transition":
            pass
    if rec["kind"] == "terminal":
        k = world.key(st)
        blob = world.snap(st)
        from .engine import expand

        succs, all_stutter, term_viols, _ = expand(world, blob, k)
        if all_stutter:
            found = term_viols
    elif rec["kind"] == "cycle":
        k = world.key(st)
        active = False
        for ev in [_tup(e) for e in rec["cycle"]]:
            pre = world.key(st)
            sandbox.invalidate()
            obs = world.apply(st, ev)
            sandbox.invalidate()
            log.append((ev, obs))
            if world.key(st) != pre or not world.quiet(obs):
                active = True
        if world.key(st) == k and active:
            found = [{"property": rec["property"], "clause": rec["clause"], "detail": rec["detail"], "msg": rec["msg"]}]
    want = _sig(rec)
    ok = any(_sig(json.loads(json.dumps(v, default=str))) == want for v in found)
    if not ok:
        # same clause with differing detail still counts as reproduced-but-different: report it
        ok_clause = any(v["clause"] == rec["clause"] for v in found)
    else:
        ok_clause = True
    if not quiet:
        for ev, obs in log:
            print("  ", json.dumps(ev), "->", json.dumps(obs, default=str)[:300])
        if ok:
            print(f"VIOLATION property={rec['property']} replay={path}")
            print(f"  clause={rec['clause']} {rec['msg']}")
        elif ok_clause:
            print(f"VIOLATION property={rec['property']} replay={path}")
            print("  (same clause, different detail than recorded)")
        else:
            print(f"not reproduced: {rec['clause']}")
    return ok, ok_clause


if __name__ == "__main__":
    ok, okc = replay_file(sys.argv[1])
    sys.exit(1 if (ok or okc) else 0)
