"""Virtual time (DESIGN.md 2.3).

``spacepackets.countdown.time_ms`` - the only clock cfdppy reads - is replaced by a constant T0.
Time passes *for one entity* by shifting the start instants of all Countdown objects reachable from
that entity backwards (clamped so that the remaining time never goes below 0).  Because Countdown
only exposes functions of the remaining time this is exactly a per-entity clock, and it makes
states that differ only by a time shift identical.
"""
from __future__ import annotations

import spacepackets.countdown as _cd
from spacepackets.countdown import Countdown

T0 = 1_000_000_000


class _NoWallClock:
    def time(self):  # pragma: no cover
        raise RuntimeError("xmc: wall clock read by code under test")

    def __getattr__(self, name):  # pragma: no cover
        raise RuntimeError(f"xmc: time.{name} used by spacepackets.countdown")


def install() -> None:
    _cd.time_ms = lambda: T0
    _cd.time = _NoWallClock()


def remaining(c: Countdown) -> int:
    return max(0, c._start_time_ms + c._timeout_ms - T0)


def timers(root) -> list:
    from .canon import iter_objects

    return [o for o in iter_objects(root) if isinstance(o, Countdown)]


def next_expiry(root) -> int | None:
    """Smallest positive remaining time of any timer reachable from root."""
    rem = [remaining(t) for t in timers(root)]
    rem = [r for r in rem if r > 0]
    return min(rem) if rem else None


def advance(root, delta_ms: int) -> None:
    for t in timers(root):
        t._start_time_ms = max(t._start_time_ms - delta_ms, T0 - t._timeout_ms)


def new_timer(seconds: float) -> Countdown:
    return Countdown.from_seconds(seconds)
