"""xmc - explicit-state model checker over the real cfdppy objects (see /verif/DESIGN.md section 2)."""
import os
import sys

REPO = os.environ.get("VERIF_REPO", "/repo")
_src = os.path.join(REPO, "src")
if _src not in sys.path[:1]:
    sys.path.insert(0, _src)
VERIF = os.path.dirname(os.path.dirname(os.path.abspath(__file__)))
SEED = int(os.environ.get("VERIF_SEED", "0") or 0)
NPROC = int(os.environ.get("VERIF_NPROC", "0") or 0) or min(16, os.cpu_count() or 1)
