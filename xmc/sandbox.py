"""Per-process file-system sandbox on tmpfs (DESIGN.md 2.5). All paths used by worlds are relative
to the sandbox root, the process chdir()s into it."""
from __future__ import annotations

import atexit
import os
import shutil

_ROOT = None
_PID = None
_CACHE = None  # tree computed since the last invalidate() (nothing touched the sandbox in between)


def root() -> str:
    global _ROOT, _PID, _CACHE
    if _ROOT is None or _PID != os.getpid():
        _CACHE = None
        base = "/dev/shm" if os.path.isdir("/dev/shm") and os.access("/dev/shm", os.W_OK) else "/tmp"
        _ROOT = os.path.join(base, f"xmc-{os.getpid()}")
        _PID = os.getpid()
        shutil.rmtree(_ROOT, ignore_errors=True)
        os.makedirs(_ROOT)
        os.chdir(_ROOT)
        atexit.register(_cleanup, _ROOT, _PID)
    return _ROOT


def _cleanup(path, pid):
    if os.getpid() == pid:
        try:
            os.chdir("/")
        except OSError:
            pass
        shutil.rmtree(path, ignore_errors=True)


def cleanup_now():
    global _ROOT
    if _ROOT is not None and _PID == os.getpid():
        _cleanup(_ROOT, _PID)
        _ROOT = None


def invalidate() -> None:
    global _CACHE
    _CACHE = None


def tree() -> tuple:
    """Canonical content of the sandbox: sorted tuple of (relpath, 'd'|'f', bytes|None)."""
    global _CACHE
    if _CACHE is not None:
        return _CACHE
    _CACHE = _tree()
    return _CACHE


def _tree() -> tuple:
    r = root()
    out = []
    for dirpath, dirnames, filenames in os.walk(r):
        dirnames.sort()
        rel = os.path.relpath(dirpath, r)
        for d in dirnames:
            out.append((os.path.normpath(os.path.join(rel, d)), "d", None))
        for f in sorted(filenames):
            p = os.path.join(dirpath, f)
            with open(p, "rb") as fh:
                out.append((os.path.normpath(os.path.join(rel, f)), "f", fh.read()))
    out.sort()
    return tuple(out)


def restore(target: tuple) -> None:
    global _CACHE
    r = root()
    cur = tree()
    if cur == target:
        return
    _CACHE = None
    want = {p: (k, c) for p, k, c in target}
    have = {p: (k, c) for p, k, c in cur}
    # remove what should not be there / differs in kind (deepest first)
    for p in sorted(have, key=lambda x: -x.count("/")):
        if p not in want or want[p][0] != have[p][0]:
            full = os.path.join(r, p)
            if not os.path.lexists(full):
                continue
            if have[p][0] == "d":
                shutil.rmtree(full, ignore_errors=True)
            else:
                os.remove(full)
    for p in sorted(want, key=lambda x: x.count("/")):
        k, c = want[p]
        full = os.path.join(r, p)
        if k == "d":
            os.makedirs(full, exist_ok=True)
        elif p not in have or have[p] != (k, c) or not os.path.exists(full):
            with open(full, "wb") as fh:
                fh.write(c)
    os.chdir(r)
    _CACHE = target


def remove_for_pids(pids) -> None:
    for pid in pids:
        for base in ("/dev/shm", "/tmp"):
            shutil.rmtree(os.path.join(base, f"xmc-{pid}"), ignore_errors=True)


def remove_stale() -> None:
    """Sandboxes of processes that no longer exist (killed runs)."""
    for base in ("/dev/shm", "/tmp"):
        try:
            names = os.listdir(base)
        except OSError:
            continue
        for n in names:
            if n.startswith("xmc-") and n[4:].isdigit() and not os.path.exists(f"/proc/{n[4:]}"):
                shutil.rmtree(os.path.join(base, n), ignore_errors=True)
