from __future__ import annotations

import argparse
import importlib
import os
import sys
import traceback


def main(argv=None):
    ap = argparse.ArgumentParser(prog="check")
    ap.add_argument("prop")
    ap.add_argument("--tier", default=os.environ.get("VERIF_TIER", "quick"), choices=["quick", "thorough"])
    ap.add_argument("--replay")
    a = ap.parse_args(argv)
    from .engine import HarnessError, setup_process

    if a.replay:
        from .replay import replay_file

        ok, okc = replay_file(a.replay)
        return 1 if (ok or okc) else 0
    setup_process()
    try:
        mod = importlib.import_module(f"checks.{a.prop.lower()}")
        return mod.run(a.tier)
    except HarnessError as e:
        print(f"HARNESS-ERROR {a.prop}: {e}", file=sys.stderr)
        return 2
    except Exception:
        traceback.print_exc()
        print(f"HARNESS-ERROR {a.prop}: internal exception", file=sys.stderr)
        return 2


if __name__ == "__main__":
    sys.exit(main())
