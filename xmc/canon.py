"""Canonical keys by a generic walk over the live object graph (DESIGN.md 2.2).

Nothing the code under test can read is dropped, except:
  * Countdown -> (timeout_ms, remaining clamped at 0)   [only functions of the remaining time are exposed]
  * attributes listed in a class-level ``_xmc_skip_`` tuple of *harness* classes (raw logs etc.)
Sharing between mutable objects is part of the key (back references by visit order).
"""
from __future__ import annotations

import enum
import hashlib
import logging
from collections import deque
from pathlib import PurePath

from spacepackets.countdown import Countdown

from . import clock
from .snapshot import CONST_IDS as _CONST_IDS

_ATOM = (int, float, str, bytes, bool, type(None))


class CanonError(Exception):
    pass


# Configuration objects of the current world (snapshot.CONSTS) keep their identity across snapshots and are
# represented by their index; whatever differs from their pristine content is part of the key separately
# (snapshot.consts_delta()), so a code-under-test that writes into its configuration is explored soundly.

# exact type -> function returning the canonical string of an immutable value object
ATOMIZERS: dict = {}


def reset_consts() -> None:
    pass


def _walk(o, out: list, memo: dict, depth: int = 0) -> None:
    if o is None or o is True or o is False:
        out.append(repr(o))
        return
    t = type(o)
    if t is int or t is float:
        out.append(repr(o))
        return
    if t is str:
        out.append("s" + repr(o))
        return
    if t is bytes:
        out.append("b" + o.hex())
        return
    if isinstance(o, enum.Enum):
        out.append(f"E{t.__name__}.{o.name}")
        return
    if isinstance(o, PurePath):
        out.append("P" + str(o))
        return
    if t is tuple:
        out.append("(")
        for x in o:
            _walk(x, out, memo, depth + 1)
        out.append(")")
        return
    if t is frozenset:
        out.append("fz{")
        parts = []
        for x in o:
            sub: list = []
            _walk(x, sub, memo, depth + 1)
            parts.append("".join(sub))
        out.extend(sorted(parts))
        out.append("}")
        return
    if isinstance(o, (type, logging.Logger)) or callable(o) and not hasattr(o, "__dict__"):
        out.append("T" + getattr(o, "__qualname__", repr(t)))
        return
    az = ATOMIZERS.get(t)
    if az is not None:
        out.append(az(o))
        return
    if id(o) in _CONST_IDS:
        out.append(f"K{_CONST_IDS[id(o)]}")
        return
    _walk_obj(o, out, memo, depth)


def _walk_obj(o, out: list, memo: dict, depth: int) -> None:
    t = type(o)
    # mutable from here on: sharing matters
    oid = id(o)
    if oid in memo:
        out.append(f"@{memo[oid]}")
        return
    memo[oid] = len(memo)
    if t is bytearray:
        out.append("ba" + bytes(o).hex())
        return
    if isinstance(o, Countdown):
        out.append(f"CD({o._timeout_ms},{clock.remaining(o)})")
        return
    if isinstance(o, (list, deque)):
        out.append("[")
        for x in o:
            _walk(x, out, memo, depth + 1)
        out.append("]")
        return
    if isinstance(o, dict):
        out.append("{")
        for k, v in o.items():  # insertion order is observable (iteration)
            _walk(k, out, memo, depth + 1)
            out.append(":")
            _walk(v, out, memo, depth + 1)
        out.append("}")
        return
    if isinstance(o, set):
        out.append("set{")
        parts = []
        for x in o:
            sub = []
            _walk(x, sub, memo, depth + 1)
            parts.append("".join(sub))
        out.extend(sorted(parts))
        out.append("}")
        return
    info = _TYPE_INFO.get(t)
    if info is None:
        slots = []
        for klass in t.__mro__:
            sl = klass.__dict__.get("__slots__", ())
            if isinstance(sl, str):
                sl = (sl,)
            slots.extend(x for x in sl if x not in ("__dict__", "__weakref__"))
        info = (f"<{t.__module__}.{t.__qualname__}", tuple(sorted(slots)), frozenset(getattr(t, "_xmc_skip_", ())))
        _TYPE_INFO[t] = info
    header, slots, skip = info
    d = getattr(o, "__dict__", None)
    if d is None and not slots:
        if callable(o):
            out.append("T" + getattr(o, "__qualname__", repr(t)))
            return
        raise CanonError(f"cannot canonicalise {t!r}: {o!r}")
    out.append(header)
    if d is not None:
        for k in sorted(d):
            if k in skip:
                continue
            out.append(" " + k + "=")
            _walk(d[k], out, memo, depth + 1)
    for k in slots:
        if k in skip or not hasattr(o, k):
            continue
        out.append(" " + k + "=")
        _walk(getattr(o, k), out, memo, depth + 1)
    out.append(">")


_TYPE_INFO: dict = {}


def canon_str(*objs) -> str:
    out: list = []
    memo: dict = {}
    for o in objs:
        _walk(o, out, memo)
        out.append("|")
    return "".join(out)


def key(*objs) -> bytes:
    return hashlib.blake2b(canon_str(*objs).encode(), digest_size=16).digest()


def iter_objects(root):
    """Deterministic pre-order iteration over all objects reachable from root (attributes,
    containers). Used to find Countdown instances."""
    seen = set()
    stack = [root]
    while stack:
        o = stack.pop()
        if isinstance(o, _ATOM) or isinstance(o, (enum.Enum, PurePath, type, logging.Logger)):
            continue
        if id(o) in seen:
            continue
        seen.add(id(o))
        yield o
        if isinstance(o, Countdown):
            continue
        if isinstance(o, dict):
            ch = list(o.keys()) + list(o.values())
        elif isinstance(o, (list, tuple, deque, set, frozenset)):
            ch = list(o)
        else:
            ch = []
            d = getattr(o, "__dict__", None)
            if d is not None:
                ch.extend(d[k] for k in sorted(d))
            for klass in type(o).__mro__:
                s = klass.__dict__.get("__slots__", ())
                if isinstance(s, str):
                    s = (s,)
                for x in s:
                    if x not in ("__dict__", "__weakref__") and hasattr(o, x):
                        ch.append(getattr(o, x))
        stack.extend(reversed(ch))
