import shutil, os, sys, subprocess
SRC='/repo'; DST='/dev/shm/fixrepo'
D='src/cfdppy/handler/dest.py'; S='src/cfdppy/handler/source.py'; F='src/cfdppy/filestore.py'; CRC='src/cfdppy/crc.py'
FIX=[]
def fx(name,f,old,new): FIX.append((name,f,old,new))
fx('D5', D, "lost_seg_tracker: LostSegmentTracker = field(default=LostSegmentTracker())", "lost_seg_tracker: LostSegmentTracker = field(default_factory=LostSegmentTracker)")
fx('D6', S, """    def reset(self) -> None:
        self.empty_file = False
        super().reset()
""", """    def reset(self) -> None:
        self.empty_file = False
        super().reset()
        self.file_size = 0
""")
fx('D7', S, """            if segment_req[0] > self._params.fp.progress:
                raise InvalidNakPdu("start offset larger than current file progress")
""", """            if segment_req[0] > self._params.fp.progress:
                raise InvalidNakPdu("start offset larger than current file progress")
            if segment_req[1] > self._params.fp.progress:
                raise InvalidNakPdu("end offset larger than current file progress")
""")
fx('D8a', S, """            self._params.positive_ack_params.ack_counter += 1
            self._prepare_eof_pdu(
                self._checksum_calculation(self._params.fp.file_size),
            )""", """            self._params.positive_ack_params.ack_counter += 1
            self._prepare_eof_pdu(
                self._checksum_calculation(self._params.fp.progress),
            )""")
fx('D8b1', CRC, '''def calc_modular_checksum(file_path: Path) -> bytes:
    """Calculates the modular checksum for a file in one go."""
    checksum = 0

    with open(file_path, "rb") as file:
        while True:
            data = file.read(4)
            if not data:
                break''', '''def calc_modular_checksum(file_path: Path, size: int | None = None) -> bytes:
    """Calculates the modular checksum for a file in one go. If a size is given, only that many
    bytes from the start of the file are covered."""
    checksum = 0

    with open(file_path, "rb") as file:
        while True:
            data = file.read(4 if size is None else min(4, size))
            if not data:
                break
            if size is not None:
                size -= len(data)''')
fx('D8b0', CRC, "import struct\n", "from __future__ import annotations\n\nimport struct\n")
fx('D8b2', F, "return calc_modular_checksum(file_path)", "return calc_modular_checksum(file_path, size_to_verify)")
fx('D9', S, """        if packet.directive_type in [
            DirectiveType.METADATA_PDU,
            DirectiveType.EOF_PDU,
            DirectiveType.PROMPT_PDU,
        ]:
            raise InvalidPduForSourceHandler(packet)""", """        if packet.pdu_type == PduType.FILE_DATA or packet.directive_type in [
            DirectiveType.METADATA_PDU,
            DirectiveType.EOF_PDU,
            DirectiveType.PROMPT_PDU,
        ]:
            raise InvalidPduForSourceHandler(packet)""")
fx('D12', S, """        assert self._put_req is not None
        assert self._put_req.source_file is not None
        assert self._params.remote_cfg is not None

        return self.user.vfs.calculate_checksum(""", """        assert self._put_req is not None
        if self._params.fp.metadata_only:
            return NULL_CHECKSUM_U32
        assert self._put_req.source_file is not None
        assert self._params.remote_cfg is not None

        return self.user.vfs.calculate_checksum(""")
fx('D12i', S, "from spacepackets.cfdp.defs import ChecksumType\n", "from spacepackets.cfdp.defs import NULL_CHECKSUM_U32, ChecksumType\n")
fx('D14a', S, "            if not self._put_req.source_file.exists():\n", "            if not self.user.vfs.file_exists(self._put_req.source_file):\n")
fx('D14b', S, """        with open(self._put_req.source_file, "rb") as of:
            file_data = self.user.vfs.read_from_opened_file(of, offset, read_len)
            # TODO""", """        file_data = self.user.vfs.read_data(self._put_req.source_file, offset, read_len)
        if True:
            # TODO""")
fx('D15', F, """            _LOGGER.exception(f"Removing directory {dir_name} failed")
            return FilestoreResponseStatusCode.RENAME_NOT_PERFORMED""", """            _LOGGER.exception(f"Removing directory {dir_name} failed")
            return FilestoreResponseStatusCode.REMOVE_DIR_NOT_ALLOWED""")
fx('D16', D, """            next_segment_reqs.append((start, end))
            if len(next_segment_reqs) == max_segments_in_one_pdu:
                self._add_packet_to_be_sent(
                    NakPdu(
                        self._params.pdu_conf,
                        0,
                        self._params.fp.file_size_eof,
                        next_segment_reqs,
                    )
                )
                next_segment_reqs = []
""", """            if len(next_segment_reqs) == max_segments_in_one_pdu:
                self._add_packet_to_be_sent(
                    NakPdu(
                        self._params.pdu_conf,
                        0,
                        self._params.fp.file_size_eof,
                        next_segment_reqs,
                    )
                )
                next_segment_reqs = []
            next_segment_reqs.append((start, end))
""")
fx('D4', D, """        self._params.fp.progress = eof_pdu.file_size
        self._params.fp.file_size_eof = eof_pdu.file_size
        self._params.acked_params.metadata_missing = True""", """        self._params.fp.progress = eof_pdu.file_size
        self._params.fp.file_size_eof = eof_pdu.file_size
        self._params.fp.crc32 = eof_pdu.file_checksum
        self._params.acked_params.metadata_missing = True""")
fx('D3', D, """            self._handle_metadata_packet(packet_holder.to_metadata_pdu())
            if self._params.acked_params.deferred_lost_segment_detection_active:
                self._reset_nak_activity_parameters()""", """            self._handle_metadata_packet(packet_holder.to_metadata_pdu())
            if self._params.acked_params.deferred_lost_segment_detection_active:
                self._reset_nak_activity_parameters()
                if self.states.step == TransactionStep.RECEIVING_FILE_DATA:
                    # The EOF PDU was already received, continue with the deferred procedure.
                    self.states.step = TransactionStep.WAITING_FOR_MISSING_DATA""")
fx('D1', D, """        if self.states.step == TransactionStep.WAITING_FOR_FINISHED_ACK:
            self._handle_waiting_for_finished_ack(pdu_holder)
""", """        if self.states.step == TransactionStep.WAITING_FOR_FINISHED_ACK:
            self._handle_waiting_for_finished_ack(pdu_holder)
        if (
            packet is not None
            and self.states.state == CfdpState.BUSY
            and self.transmission_mode == TransmissionMode.ACKNOWLEDGED
            and pdu_holder.pdu_directive_type == DirectiveType.EOF_PDU
            and self.states.step
            in [TransactionStep.WAITING_FOR_MISSING_DATA, TransactionStep.WAITING_FOR_FINISHED_ACK]
        ):
            # CFDP 4.7.2: Every received EOF PDU must be acknowledged, also repeated ones.
            self._add_packet_to_be_sent(
                AckPdu(
                    self._params.pdu_conf,
                    DirectiveType.EOF_PDU,
                    pdu_holder.to_eof_pdu().condition_code,
                    TransactionStatus.ACTIVE,
                )
            )
""")
fx('D2', D, """    def _notice_of_cancellation(self, condition_code: ConditionCode) -> None:
        self.states.step = TransactionStep.TRANSFER_COMPLETION""", """    def _notice_of_cancellation(self, condition_code: ConditionCode) -> None:
        if self.states.step == TransactionStep.WAITING_FOR_FINISHED_ACK and (
            self._params.completion_disposition == CompletionDisposition.CANCELED
        ):
            # A fault declared in the course of transferring the Finished (cancel) PDU results
            # in abandonment of the transaction, similarly to CFDP 4.11.2.2.3 for the sender.
            self._abandon_transaction()
            return
        self.states.step = TransactionStep.TRANSFER_COMPLETION""")
fx('D2b', D, """                self._declare_fault(ConditionCode.POSITIVE_ACK_LIMIT_REACHED)
                # This is a bit of a hack""", """                self._declare_fault(ConditionCode.POSITIVE_ACK_LIMIT_REACHED)
                if self.states.state == CfdpState.IDLE:
                    # Transaction was abandoned.
                    return None
                # This is a bit of a hack""")
fx('D10', D, """            self._params.acked_params.lost_seg_tracker.remove_lost_segment(
                (offset, offset + data_len)
            )
""", """            try:
                self._params.acked_params.lost_seg_tracker.remove_lost_segment(
                    (offset, offset + data_len)
                )
            except ValueError:
                # The segment exceeds the boundary of a lost segment. Keep the lost segment,
                # it will be re-requested.
                pass
""")
fx('D11', D, """    def _prepare_finished_pdu(self) -> None:
        if self.states.packets_ready:
            raise UnretrievedPdusToBeSent
""", """    def _prepare_finished_pdu(self) -> None:
""")
fx('D17', D, """            if (
                self._declare_fault(ConditionCode.FILE_CHECKSUM_FAILURE)
                != FaultHandlerCode.IGNORE_ERROR
            ):
                return False
            self._start_check_limit_handling()""", """            if (
                self.cfg.default_fault_handlers.get_fault_handler(
                    ConditionCode.FILE_CHECKSUM_FAILURE
                )
                != FaultHandlerCode.IGNORE_ERROR
            ):
                return False
            self._start_check_limit_handling()""")

fx('D1s_a', S, """            if (
                self.states.step == TransactionStep.WAITING_FOR_EOF_ACK
                and packet.directive_type != DirectiveType.ACK_PDU
            ):""", """            if (
                self.states.step == TransactionStep.WAITING_FOR_EOF_ACK
                and packet.directive_type
                not in (DirectiveType.ACK_PDU, DirectiveType.FINISHED_PDU)
            ):""")
fx('D1s_b', S, """        if self.__handle_retransmission(packet_holder):
            return
        if packet_holder.pdu is None or (""", """        if self.__handle_retransmission(packet_holder):
            return
        if (
            packet_holder.pdu is not None
            and packet_holder.pdu_directive_type == DirectiveType.FINISHED_PDU
        ):
            # The Finished PDU implies that the EOF PDU was received by the remote entity.
            self.states.step = TransactionStep.WAITING_FOR_FINISHED
            return
        if packet_holder.pdu is None or (""")


fx('D18', D, """        if packet_holder.pdu_type == PduType.FILE_DATA:
            self._handle_fd_without_previous_metadata(True, packet_holder.to_file_data_pdu())
        elif packet_holder.pdu_directive_type == DirectiveType.METADATA_PDU:""", """        if packet_holder.pdu_type == PduType.FILE_DATA:
            # After the EOF PDU was received, the whole file is already tracked as lost.
            if self._params.fp.file_size_eof is None:
                self._handle_fd_without_previous_metadata(True, packet_holder.to_file_data_pdu())
        elif packet_holder.pdu_directive_type == DirectiveType.METADATA_PDU:""")

want = sys.argv[1:]
shutil.rmtree(DST, ignore_errors=True)
shutil.copytree(SRC, DST, ignore=shutil.ignore_patterns('.git','build','docs','examples','__pycache__','.benchmarks','*.egg-info'))
for name,f,old,new in FIX:
    if want and not any(name.startswith(w) for w in want): continue
    p=os.path.join(DST,f); s=open(p).read()
    assert s.count(old)==1, (name, s.count(old))
    open(p,'w').write(s.replace(old,new)); print('applied',name)
env=dict(os.environ, PYTHONPATH=DST+'/src', PYTHONDONTWRITEBYTECODE='1')
r=subprocess.run(['/venv/bin/python','-m','pytest','-q','-p','no:cacheprovider','--timeout=120'],cwd=DST,env=env,capture_output=True,text=True)
print(r.stdout[-1500:])
