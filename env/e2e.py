"""End-to-end worlds: the real SourceHandler and DestHandler connected by a link model
(DESIGN.md 2.4): 'ff' fault-free FIFO, 'k' at most K counted faults, 'chaos' unbounded
loss/duplication/reordering (+ optional bit flips and write rejections)."""
from __future__ import annotations

from cfdppy import CfdpState
from cfdppy.filestore import NativeFilestore
from xmc import clock, sandbox
from xmc.engine import World

from . import core
from .core import Msg, sat


class FaultyFilestore(NativeFilestore):
    """Native filestore whose next write can be rejected (the user's own extension point)."""

    def __init__(self):
        super().__init__()
        self.reject_next = False

    def write_data(self, file, data, offset):
        if self.reject_next:
            self.reject_next = False
            raise PermissionError(f"xmc: injected write rejection for {file}")
        return super().write_data(file, data, offset)

    # create / truncate rejections are armed separately (reject_create), used by C14
    reject_create = False

    def create_file(self, file):
        if self.reject_create:
            self.reject_create = False
            raise PermissionError(f"xmc: injected create rejection for {file}")
        return super().create_file(file)

    def truncate_file(self, file):
        if self.reject_create:
            self.reject_create = False
            raise PermissionError(f"xmc: injected truncate rejection for {file}")
        return super().truncate_file(file)


class Probe:
    """Evaluated inside the Transaction-Finished indication: the destination file at that moment."""

    def __init__(self, path):
        self.path = path

    def __call__(self, kind, rec):
        if kind == "finished":
            data = core.read_file(self.path)
            return {"file": None if data is None else data.hex()}
        return None


class E2EState:
    def __init__(self):
        self.S = None
        self.D = None
        self.sd = []  # S -> D
        self.ds = []  # D -> S
        self.limbo = []  # (channel name, Msg)
        self.budget = 0
        self.fin = {"S": [], "D": []}
        self.src_data = b""


class E2EWorld(World):
    """cfg: transfer configuration (core.DEFAULTS keys) + link ('ff'|'k'|'chaos'), K, fault kinds."""

    name = "E2E"
    link_default = "ff"

    def __init__(self, **cfg):
        super().__init__(**cfg)
        self.c = core.full_cfg(cfg)
        self.link = cfg.get("link", self.link_default)
        self.K = cfg.get("K", 0)
        self.kinds = tuple(cfg.get("kinds", ("drop", "dup", "delay")))
        self.timing = "free" if self.link == "chaos" else "urgent"
        self.dest_path = core.dest_path_resolved(self.c)

    # ---- construction ------------------------------------------------------------------------
    def make_vfs(self, which):
        return FaultyFilestore() if which == "D" else None

    def build(self):
        c = self.c
        st = E2EState()
        vs, vd = self.make_vfs("S"), self.make_vfs("D")
        st.src_data = self.prepare(c, vs, vd)
        st.S = core.make_source(c, vfs=vs)
        st.D = core.make_dest(c, vfs=vd)
        probe = self.make_probe(st)
        st.S.user.probe = probe
        st.D.user.probe = probe
        st.budget = self.K
        st.cancels = self.cfg.get("cancels", 0)
        st.busy_puts = self.cfg.get("busy_puts", 0)
        st.ntx = 1
        ok = st.S.h.put_request(core.put_request(c))
        assert ok
        return st

    def prepare(self, c, vs, vd):
        return core.prepare_files(c)

    def rewrite_source(self, st, data):
        with open(core.SRC_PATH, "wb") as f:
            f.write(data)
        sandbox.invalidate()

    def make_probe(self, st):
        return Probe(self.dest_path)

    def read_dest(self, st):
        return core.read_file(self.dest_path)

    def consts(self, st):
        out = core.entity_consts(st.S) + core.entity_consts(st.D)
        if st.S.h._put_req is not None:
            out.append(st.S.h._put_req)
        return out

    # ---- events ------------------------------------------------------------------------------
    def enabled(self, st):
        evs = [("tick", "S"), ("tick", "D")]
        if self.link == "chaos":
            for i in range(len(st.sd)):
                evs.append(("dlv", "D", i))
            for i in range(len(st.ds)):
                evs.append(("dlv", "S", i))
            if "flip" in self.kinds:
                for i, m in enumerate(st.sd):
                    if m.d["T"] == "FD" and m.d["data"]:
                        evs.append(("dlvflip", "D", i))
            if "reject" in self.kinds and not st.D.user.vfs.reject_next:
                evs.append(("reject",))
        else:
            if st.ds:
                evs.append(("recv", "S"))
            if st.sd:
                evs.append(("recv", "D"))
            if self.link == "k" and st.budget > 0 and st.ntx >= self.cfg.get("faults_from_tx", 1):
                for ch in ("sd", "ds"):
                    q = getattr(st, ch)
                    if not q:
                        continue
                    for kind in self.kinds:
                        if kind in ("drop", "dup", "delay"):
                            if ch in self.cfg.get("fault_channels", ("sd", "ds")):
                                evs.append((kind, ch))
                        elif kind == "flip" and ch == "sd" and q[0].d["T"] == "FD" and q[0].d["data"]:
                            evs.append(("flip", ch))
                if "reject" in self.kinds and not st.D.user.vfs.reject_next:
                    evs.append(("reject",))
            for i in range(len(st.limbo)):
                evs.append(("release", i))
        for e in ("S", "D"):
            if clock.next_expiry(getattr(st, e).h) is not None:
                evs.append(("expire", e))
        if self.cfg.get("tx2") is not None and st.ntx == 1 and self.both_idle(st) and (self.link == "chaos" or (not st.sd and not st.ds and (not st.limbo or self.cfg.get("offer_stale")))) \
                and (st.fin["S"] or st.fin["D"] or st.S.closed):
            evs.append(("put2",))  # a second transaction on the same two handlers (request-level overrides in cfg['tx2'])
        if getattr(st, "busy_puts", 0) > 0 and st.S.h.state == CfdpState.BUSY:
            evs.append(("putbusy", "S"))  # a premature put request: must be refused and leave the running transfer alone
        if getattr(st, "cancels", 0) > 0:
            for e in ("S", "D"):
                ent = getattr(st, e)
                if ent.h.state == CfdpState.BUSY and ent.h.transaction_id is not None:
                    evs.append(("cancel", e))
        return evs

    def is_late(self, ev):
        return self.timing == "urgent" and ev[0] == "expire"

    def is_free(self, ev):
        return ev[0] == "release"

    # ---- execution ---------------------------------------------------------------------------
    def _send(self, st, who, msgs):
        if not msgs:
            return
        if self.link == "chaos":
            ch = st.sd if who == "S" else st.ds
            have = {m.ck for m in ch}
            for m in msgs:
                if m.ck not in have:
                    ch.append(m)
                    have.add(m.ck)
            ch.sort(key=lambda m: m.ck)
        else:
            (st.sd if who == "S" else st.ds).extend(msgs)

    def _entity_obs(self, st, who, obs, msgs, out):
        if self.link != "chaos":  # completion monitor (saturating); chaos worlds make no progress claims
            for r in obs.get("ind", []):
                if r["ind"] == "finished":
                    lst = st.fin[who]
                    if len(lst) < 3:
                        lst.append((r["cond"], r["deliv"], r["fstat"]))
        if msgs:
            obs["out"] = [m.d for m in msgs]
            # the destination file at the moment a Finished PDU is emitted
            if who == "D" and any(m.d["T"] == "FIN" for m in msgs):
                data = self.read_dest(st)
                obs["file_at_fin"] = None if data is None else data.hex()
        if obs:
            out[who] = obs

    def _deliver(self, st, who, msg: Msg, out, flip=False):
        ent = getattr(st, who)
        out["pdu"] = core.short(msg.d) + ("~flipped" if flip else "")
        handled, replies = ent.shell_answer(msg)
        if handled:
            out["shell"] = [core.short(m.d) for m in replies]
            self._send(st, who, replies)
            if self.cfg.get("offer_stale") and ent.h.state == CfdpState.BUSY:
                # a less protective entity: the PDU of the closed transaction is also handed to the handler, which is busy with
                # another transaction and has to refuse it itself (its own transaction id check)
                obs, msgs = ent.step(msg.fresh())
                self._entity_obs(st, who, obs, msgs, out)
                self._send(st, who, msgs)
            return
        out["pdu_d"] = msg.d
        out["pre_step"] = ent.h.states.step.name
        pdu = msg.fresh()
        if flip:
            data = bytearray(pdu.file_data)
            data[0] ^= 0x01
            pdu._params.file_data = bytes(data)
        obs, msgs = ent.step(pdu)
        self._entity_obs(st, who, obs, msgs, out)
        self._send(st, who, msgs)

    def apply(self, st, ev):
        out = {}
        k = ev[0]
        if k in ("tick", "expire", "cancel", "putbusy"):
            out["pre_step"] = getattr(st, ev[1]).h.states.step.name
        if k == "tick":
            ent = getattr(st, ev[1])
            obs, msgs = ent.step(None)
            self._entity_obs(st, ev[1], obs, msgs, out)
            self._send(st, ev[1], msgs)
        elif k == "expire":
            ent = getattr(st, ev[1])
            delta = clock.next_expiry(ent.h)
            clock.advance(ent.h, delta)
            out["dt"] = delta
            obs, msgs = ent.step(None)
            self._entity_obs(st, ev[1], obs, msgs, out)
            self._send(st, ev[1], msgs)
        elif k == "put2":
            c2 = dict(self.c)
            c2.update({k2: v for k2, v in self.cfg["tx2"].items() if k2 != "rewrite"})
            if self.cfg["tx2"].get("rewrite") and not self.c["md_only"]:
                # the source file was rewritten (same length, other bytes) since the first transaction
                st.src_data = bytes(b ^ 0x5A for b in st.src_data)
                self.rewrite_source(st, st.src_data)
            st.ntx = 2
            st.fin = {"S": [], "D": []}
            obs, msgs, ret = st.S.call(st.S.h.put_request, core.put_request(c2))
            obs["ret"] = ret
            self._entity_obs(st, "S", obs, msgs, out)
            self._send(st, "S", msgs)
        elif k == "putbusy":
            st.busy_puts -= 1
            c2 = dict(self.c)
            c2.update(md_only=not self.c["md_only"], req_mode="unack" if self.c["mode"] == "ack" else "ack", req_closure=not self.c["closure"])
            obs, msgs, ret = st.S.call(st.S.h.put_request, core.put_request(c2))
            obs["ret"] = ret
            self._entity_obs(st, "S", obs, msgs, out)
            self._send(st, "S", msgs)
        elif k == "cancel":
            ent = getattr(st, ev[1])
            st.cancels -= 1
            obs, msgs, ret = ent.call(ent.h.cancel_request, ent.h.transaction_id)
            obs["ret"] = ret
            self._entity_obs(st, ev[1], obs, msgs, out)
            self._send(st, ev[1], msgs)
        elif k == "recv":
            q = st.ds if ev[1] == "S" else st.sd
            self._deliver(st, ev[1], q.pop(0), out)
        elif k in ("dlv", "dlvflip"):
            q = st.ds if ev[1] == "S" else st.sd
            self._deliver(st, ev[1], q[ev[2]], out, flip=(k == "dlvflip"))
        elif k == "drop":
            m = getattr(st, ev[1]).pop(0)
            st.budget -= 1
            out["fault"] = f"drop {core.short(m.d)}"
        elif k == "dup":
            q = getattr(st, ev[1])
            q.insert(1, q[0])
            st.budget -= 1
            out["fault"] = f"dup {core.short(q[0].d)}"
        elif k == "delay":
            m = getattr(st, ev[1]).pop(0)
            st.limbo.append((ev[1], m))
            st.limbo.sort(key=lambda x: (x[0], x[1].ck))
            st.budget -= 1
            out["fault"] = f"delay {core.short(m.d)}"
        elif k == "release":
            ch, m = st.limbo.pop(ev[1])
            getattr(st, ch).append(m)
            out["fault"] = f"release {core.short(m.d)}"
        elif k == "flip":
            m = st.sd.pop(0)
            st.budget -= 1
            self._deliver(st, "D", m, out, flip=True)
        elif k == "reject":
            st.D.user.vfs.reject_next = True
            if self.link == "k":
                st.budget -= 1
            out["fault"] = "reject next write"
        else:  # pragma: no cover
            raise ValueError(ev)
        return out

    def quiet(self, obs):
        return not obs or set(obs) <= {"dt", "pre_step"}

    # ---- helpers for oracles -----------------------------------------------------------------
    def both_idle(self, st):
        return st.S.h.state == CfdpState.IDLE and st.D.h.state == CfdpState.IDLE

    def dest_file(self, st=None):
        return core.read_file(self.dest_path) if st is None else self.read_dest(st)

    def outcome(self, st):
        data = self.dest_file(st)
        return {
            "S": st.S.h.states.step.name, "D": st.D.h.states.step.name,
            "finS": st.fin["S"], "finD": st.fin["D"],
            "file": "absent" if data is None else ("same" if data == st.src_data else "differs"),
        }

    def success_goal(self, st) -> list:
        """Reasons why ``st`` is not a successful completion (empty list = goal state)."""
        why = []
        c = self.c
        if self.cfg.get("tx2") is not None and st.ntx == 1:
            why.append("second transaction was never started")
        if st.S.h.state != CfdpState.IDLE:
            why.append(f"sender not idle (step {st.S.h.states.step.name})")
        if st.D.h.state != CfdpState.IDLE:
            why.append(f"receiver not idle (step {st.D.h.states.step.name})")
        if not c["md_only"]:
            data = self.dest_file(st)
            if data is None:
                why.append("destination file absent")
            elif data != st.src_data:
                why.append(f"destination file differs ({len(data)} bytes vs {len(st.src_data)})")
        for who in ("S", "D"):
            fins = st.fin[who]
            if len(fins) != 1:
                why.append(f"{who}: {len(fins)} Transaction-Finished indications")
            elif fins[0][0] != "NO_ERROR" or fins[0][1] != "DATA_COMPLETE":
                why.append(f"{who}: Transaction-Finished {fins[0]}")
        return why
