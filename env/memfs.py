"""A complete in-memory VirtualFilestore (paths do not exist on the host) + an audit layer that
records host file-system access attempted while it is armed (C16)."""
from __future__ import annotations

import io
import os
import sys
from pathlib import Path

from spacepackets.cfdp.defs import NULL_CHECKSUM_U32, ChecksumType
from spacepackets.cfdp.tlv import FilestoreResponseStatusCode as RC

from cfdppy.filestore import VirtualFilestore

from . import refcks


def _k(p) -> str:
    return os.path.normpath(str(p))


class MemFilestore(VirtualFilestore):
    def __init__(self):
        self.files: dict = {}  # path -> bytes
        self.dirs: list = ["."]
        self.reject_next = False
        self.log: list = []

    # harness side
    def mkdirs(self, p):
        p = _k(p)
        if p not in self.dirs:
            self.dirs = sorted(self.dirs + [p])

    def put(self, p, data: bytes):
        self.files[_k(p)] = bytes(data)

    def get(self, p):
        return self.files.get(_k(p))

    # VirtualFilestore
    def read_data(self, file, offset, read_len=None):
        k = _k(file)
        if k not in self.files:
            raise FileNotFoundError(file)
        data = self.files[k]
        off = 0 if offset is None else offset
        if read_len is None:
            read_len = len(data)
        return data[off:off + read_len]

    def read_from_opened_file(self, bytes_io, offset, read_len):
        bytes_io.seek(offset)
        return bytes_io.read(read_len)

    def is_directory(self, path):
        return _k(path) in self.dirs

    def filename_from_full_path(self, path):
        return Path(path).name

    def file_exists(self, path):
        k = _k(path)
        return k in self.files or k in self.dirs

    def truncate_file(self, file):
        k = _k(file)
        if k not in self.files:
            raise FileNotFoundError(file)
        self.files[k] = b""

    def file_size(self, file):
        k = _k(file)
        if k not in self.files:
            raise FileNotFoundError(file)
        return len(self.files[k])

    def write_data(self, file, data, offset):
        k = _k(file)
        if self.reject_next:
            self.reject_next = False
            raise PermissionError(file)
        if k not in self.files:
            raise FileNotFoundError(file)
        off = 0 if offset is None else offset
        buf = bytearray(self.files[k])
        if len(buf) < off:
            buf.extend(bytes(off - len(buf)))
        buf[off:off + len(data)] = data
        self.files[k] = bytes(buf)

    def create_file(self, file):
        k = _k(file)
        if self.file_exists(file) or os.path.dirname(k) not in self.dirs + [""]:
            return RC.CREATE_NOT_ALLOWED
        self.files[k] = b""
        return RC.CREATE_SUCCESS

    def delete_file(self, file):
        k = _k(file)
        if k in self.dirs:
            return RC.DELETE_NOT_ALLOWED
        if k not in self.files:
            return RC.DELETE_FILE_DOES_NOT_EXIST
        del self.files[k]
        return RC.DELETE_SUCCESS

    def rename_file(self, old_file, new_file):
        o, n = _k(old_file), _k(new_file)
        if o in self.dirs or n in self.dirs:
            return RC.RENAME_NOT_PERFORMED
        if o not in self.files:
            return RC.RENAME_OLD_FILE_DOES_NOT_EXIST
        if n in self.files:
            return RC.RENAME_NEW_FILE_DOES_EXIST
        self.files[n] = self.files.pop(o)
        return RC.RENAME_SUCCESS

    def replace_file(self, replaced_file, source_file):
        r, s = _k(replaced_file), _k(source_file)
        if r in self.dirs or s in self.dirs:
            return RC.REPLACE_NOT_ALLOWED
        if r not in self.files:
            return RC.REPLACE_FILE_NAME_ONE_TO_BE_REPLACED_DOES_NOT_EXIST
        if s not in self.files:
            return RC.REPLACE_FILE_NAME_TWO_REPLACE_SOURCE_NOT_EXIST
        self.files[r] = self.files.pop(s)
        return RC.REPLACE_SUCCESS

    def create_directory(self, dir_name):
        if self.file_exists(dir_name):
            return RC.CREATE_DIR_CAN_NOT_BE_CREATED
        self.mkdirs(dir_name)
        return RC.CREATE_DIR_SUCCESS

    def remove_directory(self, dir_name, recursive=False):
        k = _k(dir_name)
        if k not in self.dirs:
            return RC.REMOVE_DIR_DOES_NOT_EXIST if k not in self.files else RC.REMOVE_DIR_NOT_ALLOWED
        kids = [p for p in list(self.files) + self.dirs if p.startswith(k + "/")]
        if kids and not recursive:
            return RC.REMOVE_DIR_NOT_ALLOWED
        for p in kids:
            self.files.pop(p, None)
        self.dirs = [d for d in self.dirs if d != k and not d.startswith(k + "/")]
        return RC.REMOVE_DIR_SUCCESS

    def list_directory(self, dir_name, target_file, recursive=False):
        return RC.NOT_PERFORMED

    def calculate_checksum(self, checksum_type, file_path, size_to_verify, segment_len=4096):
        if checksum_type == ChecksumType.NULL_CHECKSUM:
            return NULL_CHECKSUM_U32
        k = _k(file_path)
        if k not in self.files:
            raise FileNotFoundError(file_path)
        if segment_len == 0:
            raise ValueError("segment length can not be 0")
        data = self.files[k][:size_to_verify]
        name = {ChecksumType.CRC_32: "crc32", ChecksumType.CRC_32C: "crc32c", ChecksumType.MODULAR: "mod"}[checksum_type]
        return refcks.REF[name](data)


# ------------------------------------------------------------------------------------------------
class Audit:
    """Records host file-system access (paths relative to or inside the current sandbox) while armed."""

    EVENTS = ("open", "os.remove", "os.rename", "os.mkdir", "os.rmdir", "os.truncate", "os.scandir", "os.listdir", "os.chmod", "os.link",
              "os.symlink", "os.utime", "shutil.rmtree", "shutil.copyfile", "shutil.move", "os.replace")

    def __init__(self):
        self.armed = False
        self.hits: list = []
        self.root = None
        self._installed = False
        self._orig = {}

    def _interesting(self, path) -> bool:
        try:
            p = os.fspath(path)
        except TypeError:
            return False
        if isinstance(p, bytes):
            p = p.decode(errors="replace")
        if not isinstance(p, str):
            return False
        if not os.path.isabs(p):
            return not p.endswith((".py", ".pyc"))
        return self.root is not None and p.startswith(self.root)

    def _hook(self, event, args):
        if not self.armed or event not in self.EVENTS:
            return
        if args and self._interesting(args[0]):
            self.hits.append((event, str(args[0])))

    def install(self):
        if self._installed:
            return
        self._installed = True
        sys.addaudithook(self._hook)
        for name in ("stat", "lstat", "access"):
            orig = getattr(os, name)
            self._orig[name] = orig

            def wrapper(path, *a, _orig=orig, _name=name, **kw):
                if self.armed and self._interesting(path):
                    self.hits.append((f"os.{_name}", str(path)))
                return _orig(path, *a, **kw)

            setattr(os, name, wrapper)

    def arm(self, root):
        self.install()
        self.root = root
        self.hits = []
        self.armed = True

    def disarm(self):
        self.armed = False
        hits, self.hits = self.hits, []
        return hits


AUDIT = Audit()
