"""SRC world: one real SourceHandler driven by the most general *receiver* (DESIGN.md 3).

Events:
  ('tick',) ('expire',)                 state machine without packet / after advancing to the next expiry
  ('put', variant)                      Put.request: 'valid' | 'empty' | 'mdonly' | 'missing' | 'unknown'
  ('cancel', 'right'|'wrong')           Cancel.request
  ('ackeof',[cond])                     ACK (EOF)
  ('fin', cond, deliv, fstat)           Finished PDU
  ('nak', ((s,e),...))                  NAK PDU with the given segment requests
  ('pdu', KIND, dir, ((field,val),..))  any other PDU (pdus.build)
"""
from __future__ import annotations

import os
from pathlib import Path

from cfdppy import CfdpState
from cfdppy.request import PutRequest
from spacepackets.cfdp import TransactionId
from spacepackets.cfdp.pdu import PduFactory
from spacepackets.util import UnsignedByteField
from xmc import clock
from xmc.engine import World

from . import core, pdus

EMPTY_PATH = "in/empty.bin"


class SrcState:
    def __init__(self):
        self.S = None
        self.src = b""
        self.peer = None  # ids / seq of the PDUs the handler emits (what a receiver would see)
        self.nput = 0  # accepted put requests so far
        self.m = {}


class SrcWorld(World):
    name = "SRC"
    timing = "free"
    default_alphabet: tuple = (("tick",),)
    autoput = True

    def __init__(self, **cfg):
        super().__init__(**cfg)
        self.c = core.full_cfg({k: v for k, v in cfg.items() if k in core.DEFAULTS})
        self.alphabet = [tuple(e) for e in cfg.get("alphabet", self.default_alphabet)]

    def build(self):
        c = self.c
        st = SrcState()
        st.src = core.content(c["size"], zero=c["zero"])
        os.makedirs("in", exist_ok=True)
        with open(core.SRC_PATH, "wb") as f:
            f.write(st.src)
        with open(EMPTY_PATH, "wb") as f:
            pass
        st.S = core.make_source(c, vfs=self.make_vfs())
        self.init_model(st)
        if self.cfg.get("autoput", self.autoput):
            ok = st.S.h.put_request(self.put_req("mdonly" if c["md_only"] else "valid"))
            assert ok
            st.nput = 1
        return st

    def make_vfs(self):
        return None  # the native filestore

    def init_model(self, st):
        pass

    def consts(self, st):
        return core.entity_consts(st.S)

    def put_req(self, variant) -> PutRequest:
        c = dict(self.c)
        if variant == "mdonly":
            c["md_only"] = True
            return core.put_request(c)
        c["md_only"] = False
        req = core.put_request(c)
        if variant == "empty":
            req.source_file = Path(EMPTY_PATH)
        elif variant == "missing":
            req.source_file = Path("in/nonexistent.bin")
        elif variant == "unknown":
            req.destination_id = UnsignedByteField(77, c["idw_d"])
        elif variant == "valid_wide":  # same destination entity, id given with a wider field
            req.destination_id = UnsignedByteField(c["idv_d"], 2 * c["idw_d"])
        return req

    # ---- events ------------------------------------------------------------------------------
    def enabled(self, st):
        evs = []
        for e in self.alphabet:
            if e[0] in ("expire", "advance"):
                if clock.next_expiry(st.S.h) is not None:
                    evs.append(e)
            else:
                evs.append(e)
        return evs

    def peer_conf(self, st, **over):
        c = self.c
        w = max(c["idw_s"], c["idw_d"])
        p = st.peer or {"src": [c["idv_s"], w], "dst": [c["idv_d"], w], "seq": [c["seq0"], c["seqw"]], "mode": core.eff_mode(c), "crc": c["crc_flag"]}
        kw = dict(src=tuple(p["src"]), dst=tuple(p["dst"]), seq=tuple(p["seq"]), mode=p["mode"], crc=p["crc"])
        kw.update(over)
        return pdus.conf(**kw)

    def make_pdu(self, st, ev):
        k = ev[0]
        if k == "ackeof":
            return pdus.build("ACKE", self.peer_conf(st), cond=ev[1] if len(ev) > 1 else "NO_ERROR")
        if k == "fin":
            return pdus.build("FIN", self.peer_conf(st), cond=ev[1], deliv=ev[2], fstat=ev[3])
        if k == "nak":
            reqs = [tuple(r) for r in ev[1]]
            hi = max([e for _, e in reqs] + [0])
            return pdus.build("NAK", self.peer_conf(st), scope=(0, hi), reqs=reqs)
        if k == "pdu":
            over = dict(ev[3]) if len(ev) > 3 else {}
            conf_over = {a: over.pop(a) for a in list(over) if a in ("src", "dst", "seq", "mode", "crc")}
            return pdus.build(ev[1], self.peer_conf(st, **conf_over), ev[2], **over)
        raise ValueError(ev)

    def cur_tid(self, st, wrong=False):
        c = self.c
        p = st.peer or {"seq": [0, c["seqw"]]}
        wrong_seq = (p["seq"][0] + 9) % (1 << (8 * p["seq"][1]))
        return TransactionId(UnsignedByteField(c["idv_s"], c["idw_s"]), UnsignedByteField(wrong_seq if wrong else p["seq"][0], p["seq"][1]))

    def apply(self, st, ev):
        out = {}
        k = ev[0]
        ent = st.S
        out["pre_step"] = ent.h.states.step.name
        out["pre_state"] = ent.h.state.name
        out["pre_progress"] = getattr(getattr(getattr(ent.h, "_params", None), "fp", None), "progress", None)
        rem = [clock.remaining(t) for t in clock.timers(ent.h)]
        out["timers"] = [len(rem), sum(1 for r in rem if r == 0)]  # armed timers, of which expired at call entry
        if k == "tick":
            obs, msgs = ent.step(None)
        elif k == "expire":
            delta = clock.next_expiry(ent.h)
            clock.advance(ent.h, delta)
            out["dt"] = delta
            rem = [clock.remaining(t) for t in clock.timers(ent.h)]
            out["timers"] = [len(rem), sum(1 for r in rem if r == 0)]
            obs, msgs = ent.step(None)
        elif k == "put":
            obs, msgs, ret = ent.call(ent.h.put_request, self.put_req(ev[1]))
            out["ret"] = ret
            if ret is True:
                st.nput += 1
        elif k == "advance":  # time passes up to the next expiry; the handler is not called
            delta = clock.next_expiry(ent.h)
            clock.advance(ent.h, delta)
            out["dt"] = delta
            obs, msgs = {}, []
        elif k == "cancel":
            obs, msgs, ret = ent.call(ent.h.cancel_request, self.cur_tid(st, wrong=(ev[1] == "wrong")))
            out["ret"] = ret
        else:
            pdu = self.make_pdu(st, ev)
            out["pdu"] = core.pdesc(pdu)
            obs, msgs = ent.step(pdu)
        if msgs:
            obs["out"] = [m.d for m in msgs]
            rep = []
            for m in msgs:
                r = reparse(m)
                if r:
                    rep.append(r)
            if rep:
                obs["reparse"] = rep
            last = msgs[-1].d
            st.peer = {"src": last["src"], "dst": last["dst"], "seq": last["seq"],
                       "mode": "ack" if last["mode"] == "ACKNOWLEDGED" else "unack", "crc": last["crc"] == "WITH_CRC"}
        if obs:
            out["S"] = obs
        out["post_step"] = ent.h.states.step.name
        out["post_state"] = ent.h.state.name
        self.update_model(st, ev, out)
        return out

    def update_model(self, st, ev, out):
        pass

    def quiet(self, obs):
        return set(obs) <= {"pre_step", "post_step", "pre_state", "post_state", "pre_progress", "dt", "timers"} and obs.get("pre_step") == obs.get("post_step")

    @staticmethod
    def inds(out, kind=None):
        return [r for r in out.get("S", {}).get("ind", []) if kind is None or r["ind"] == kind]

    @staticmethod
    def emitted(out, t=None):
        return [d for d in out.get("S", {}).get("out", []) if t is None or d["T"] == t]

    @staticmethod
    def exc(out):
        return out.get("S", {}).get("exc")

    @staticmethod
    def faults(out):
        return out.get("S", {}).get("faults", [])

    def idle(self, st):
        return st.S.h.state == CfdpState.IDLE


HEADER_KEYS = ("dir", "mode", "crc", "large", "src", "dst", "seq", "T")


def reparse(msg) -> dict | None:
    """Serialise the emitted PDU and parse it back with the generic factory; returns differences."""
    pdu = msg.fresh()
    try:
        raw = pdu.pack()
    except Exception as e:  # noqa: BLE001
        return {"T": msg.d["T"], "pack_exc": type(e).__name__}
    try:
        back = PduFactory.from_raw(raw)
    except Exception as e:  # noqa: BLE001
        return {"T": msg.d["T"], "parse_exc": type(e).__name__}
    if back is None:
        return {"T": msg.d["T"], "parse_exc": "None"}
    bd = core.pdesc(back)
    diff = {}
    # header fields, length and the payload fields whose unpack() in spacepackets 0.26.1 is faithful
    # (EOF condition code and ACK sub-fields come back as raw / unshifted integers: dependency quirks)
    keys = HEADER_KEYS + ("plen",) + {"FD": ("off", "data"), "MD": ("size", "sname", "dname", "cks", "closure", "opts"),
                                       "EOF": ("size", "cks")}.get(msg.d["T"], ())
    for k in keys:
        if bd.get(k) != msg.d.get(k):
            diff[k] = [msg.d.get(k), bd.get(k)]
    if diff:
        return {"T": msg.d["T"], "diff": diff}
    return None
