"""DST world: one real DestHandler driven by the most general *sender* (DESIGN.md 3).

Events (tuples; the alphabet of a run is ``cfg['alphabet']`` or the class default):
  ('md',)                      Metadata PDU of the sender's current transaction
  ('newtx',)                   the sender moves on to its next transaction (sequence number + 1)
  ('fd', off, len, tag)        File Data PDU; tag 0 = the source file's own bytes, tag>0 = distinct bytes
  ('eof', size, cond, good)    EOF PDU; good=1 -> checksum of source[:size], 0 -> a wrong checksum
  ('ackfin',)                  ACK (Finished)
  ('prompt',) ('ka',) ...      foreign / unusual PDUs (pdus.build kinds in lower case)
  ('tick',) ('expire',)        state machine without packet / after advancing time to the next expiry
  ('cancel', 'right'|'wrong')  Cancel.request
  ('reject',)                  the next filestore write is rejected (PermissionError)
"""
from __future__ import annotations

import os

from cfdppy import CfdpState
from spacepackets.cfdp import TransactionId
from spacepackets.util import UnsignedByteField
from xmc import clock, sandbox
from xmc.engine import World

from . import core, pdus, refcks
from .e2e import FaultyFilestore

SENTINELS = {"out/other.bin": b"\xaa\xbb", "in/src.bin": None}


class DstState:
    def __init__(self):
        self.D = None
        self.seq = 0
        self.src = b""
        self.m = {}  # reference model / monitor state of the concrete check


def variant_bytes(off: int, ln: int, tag: int) -> bytes:
    return bytes((((off + i) * 7 + tag * 13) % 251) + 1 for i in range(ln))


class DstWorld(World):
    name = "DST"
    timing = "free"
    default_alphabet: tuple = ()

    def __init__(self, **cfg):
        super().__init__(**cfg)
        self.c = core.full_cfg({k: v for k, v in cfg.items() if k in core.DEFAULTS})
        self.alphabet = [tuple(e) for e in cfg.get("alphabet", self.default_alphabet)]
        self.dest_path = core.dest_path_resolved(self.c)

    # ---- construction ------------------------------------------------------------------------
    def build(self):
        c = self.c
        st = DstState()
        st.src = core.content(c["size"], zero=c["zero"])
        os.makedirs("in", exist_ok=True)
        os.makedirs("out", exist_ok=True)
        with open("in/src.bin", "wb") as f:
            f.write(st.src)
        with open("out/other.bin", "wb") as f:
            f.write(SENTINELS["out/other.bin"])
        if c["shape"] == "existing":
            with open(core.DST_FILE, "wb") as f:
                f.write(b"\xee" * (c["size"] + 3))
        elif c["shape"] == "dir_existing":
            with open(core.dest_path_resolved(c), "wb") as f:
                f.write(b"\xdd" * (c["size"] + 3))
        elif c["shape"] == "dir_dir":
            os.makedirs(core.dest_path_resolved(c), exist_ok=True)
        st.D = core.make_dest(c, vfs=FaultyFilestore())
        self.init_model(st)
        return st

    def init_model(self, st):
        pass

    def consts(self, st):
        return core.entity_consts(st.D)

    # ---- events ------------------------------------------------------------------------------
    def enabled(self, st):
        evs = []
        for e in self.alphabet:
            if e[0] in ("expire", "advance"):
                if clock.next_expiry(st.D.h) is not None:
                    evs.append(e)
            elif e[0] == "reject":
                if not st.D.user.vfs.reject_next:
                    evs.append(e)
            elif e[0] == "reject_create":
                if not st.D.user.vfs.reject_create:
                    evs.append(e)
            elif e[0] == "newtx":
                if st.seq < self.cfg.get("max_tx", 1):
                    evs.append(e)
            else:
                evs.append(e)
        return evs

    def pdu_conf(self, st, **over):
        c = self.c
        kw = dict(src=(c["idv_s"], c["idw_s"]), dst=(c["idv_d"], c["idw_d"]), seq=(st.seq, c["seqw"]), mode=c["mode"], crc=c["crc_flag"],
                  large=bool(self.cfg.get("large_pdus")))  # large_pdus: the sender uses 64 bit file-size-sensitive fields (also for a small file)
        kw.update(over)
        return pdus.conf(**kw)

    def fd_bytes(self, st, off, ln, tag):
        if tag == 0:
            data = st.src[off:off + ln]
            if len(data) < ln:
                data = data + variant_bytes(off + len(data), ln - len(data), 9)
            return data
        return variant_bytes(off, ln, tag)

    def make_pdu(self, st, ev):
        c = self.c
        k = ev[0]
        if k == "md":
            if c["md_only"]:
                return pdus.build("MD", self.pdu_conf(st), closure=c["closure"], cks="null", size=0, sname=None, dname=None)
            # md_size: the file size announced by the Metadata PDU differs from the real one (0 = unbounded file, the EOF tells the size)
            return pdus.build("MD", self.pdu_conf(st), closure=c["closure"], cks=c["cks"], size=self.cfg.get("md_size", c["size"]), sname=core.SRC_PATH,
                              dname=core.dest_path_requested(c))
        if k == "fd":
            _, off, ln, tag = ev
            return pdus.build("FD", self.pdu_conf(st), data=self.fd_bytes(st, off, ln, tag), off=off)
        if k == "eof":
            _, size, cond, good = ev
            cks = refcks.REF[c["cks"]](st.src[:size])
            if not good:
                cks = bytes([cks[0] ^ 0x40]) + cks[1:]
            return pdus.build("EOF", self.pdu_conf(st), size=size, cond=cond, cksum=cks)
        if k == "ackfin":
            return pdus.build("ACKF", self.pdu_conf(st), cond=ev[1] if len(ev) > 1 else "NO_ERROR")
        if k == "prompt":
            return pdus.build("PROMPT", self.pdu_conf(st))
        if k == "pdu":  # ('pdu', KIND, dir, {overrides as sorted tuple})
            over = dict(ev[3]) if len(ev) > 3 else {}
            conf_over = {a: over.pop(a) for a in list(over) if a in ("src", "dst", "seq", "mode", "crc")}
            if "seq" not in conf_over:
                conf_over["seq"] = (st.seq, c["seqw"])
            return pdus.build(ev[1], self.pdu_conf(st, **conf_over), ev[2], **over)
        raise ValueError(ev)

    def cur_tid(self, st):
        c = self.c
        return TransactionId(UnsignedByteField(c["idv_s"], c["idw_s"]), UnsignedByteField(st.seq, c["seqw"]))

    def apply(self, st, ev):
        out = {}
        k = ev[0]
        ent = st.D
        pre_step = ent.h.states.step.name
        pre_progress = getattr(getattr(getattr(ent.h, "_params", None), "fp", None), "progress", None)
        pre_tree = sandbox.tree()
        rem = [clock.remaining(t) for t in clock.timers(ent.h)]
        out["timers"] = [len(rem), sum(1 for r in rem if r == 0)]  # armed timers, of which expired at call entry
        if k == "tick":
            obs, msgs = ent.step(None)
        elif k == "expire":
            delta = clock.next_expiry(ent.h)
            clock.advance(ent.h, delta)
            out["dt"] = delta
            rem = [clock.remaining(t) for t in clock.timers(ent.h)]
            out["timers"] = [len(rem), sum(1 for r in rem if r == 0)]
            obs, msgs = ent.step(None)
        elif k == "advance":  # time passes up to the next expiry; the handler is not called
            delta = clock.next_expiry(ent.h)
            clock.advance(ent.h, delta)
            out["dt"] = delta
            obs, msgs = {}, []
        elif k == "cancel":
            tid = self.cur_tid(st) if ev[1] == "right" else TransactionId(UnsignedByteField(self.c["idv_s"], self.c["idw_s"]), UnsignedByteField(st.seq + 7, self.c["seqw"]))
            obs, msgs, ret = ent.call(ent.h.cancel_request, tid)
            out["ret"] = ret
        elif k == "reject":
            ent.user.vfs.reject_next = True
            obs, msgs = {}, []
            out["armed"] = True
        elif k == "reject_create":
            ent.user.vfs.reject_create = True
            obs, msgs = {}, []
            out["armed"] = "create"
        elif k == "newtx":
            st.seq += 1
            obs, msgs = {}, []
            out["seq"] = st.seq
        else:
            pdu = self.make_pdu(st, ev)
            out["pdu"] = core.pdesc(pdu)
            obs, msgs = ent.step(pdu)
        if msgs:
            obs["out"] = [m.d for m in msgs]
        if obs:
            out["D"] = obs
        sandbox.invalidate()
        post_tree = sandbox.tree()
        out["pre_step"] = pre_step
        out["pre_progress"] = pre_progress
        out["post_step"] = ent.h.states.step.name
        if post_tree != pre_tree:
            pre = {p: (kk, cc) for p, kk, cc in pre_tree}
            post = {p: (kk, cc) for p, kk, cc in post_tree}
            out["fs"] = {p: [None if p not in pre else (pre[p][1].hex() if pre[p][1] is not None else "dir"),
                             None if p not in post else (post[p][1].hex() if post[p][1] is not None else "dir")]
                         for p in sorted(set(pre) | set(post)) if pre.get(p) != post.get(p)}
        self.update_model(st, ev, out)
        return out

    def update_model(self, st, ev, out):
        pass

    def quiet(self, obs):
        return set(obs) <= {"pre_step", "post_step", "pre_progress", "dt", "timers"} and obs.get("pre_step") == obs.get("post_step")

    # ---- helpers -----------------------------------------------------------------------------
    @staticmethod
    def inds(out, kind=None):
        lst = out.get("D", {}).get("ind", [])
        return [r for r in lst if kind is None or r["ind"] == kind]

    @staticmethod
    def emitted(out, t=None):
        lst = out.get("D", {}).get("out", [])
        return [d for d in lst if t is None or d["T"] == t]

    @staticmethod
    def exc(out):
        return out.get("D", {}).get("exc")

    def idle(self, st):
        return st.D.h.state == CfdpState.IDLE
