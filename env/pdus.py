"""Well-formed PDUs of any type / content from small JSON-able specs (alphabets of the SRC, DST,
ROUTE worlds)."""
from __future__ import annotations

from spacepackets.cfdp import (
    ChecksumType,
    ConditionCode,
    CrcFlag,
    Direction,
    EntityIdTlv,
    LargeFileFlag,
    PduConfig,
    TransmissionMode,
)
from spacepackets.cfdp.pdu import (
    AckPdu,
    DeliveryCode,
    DirectiveType,
    EofPdu,
    FileDataPdu,
    FileStatus,
    FinishedPdu,
    KeepAlivePdu,
    MetadataParams,
    MetadataPdu,
    NakPdu,
    PromptPdu,
    TransactionStatus,
)
from spacepackets.cfdp.pdu.file_data import FileDataParams
from spacepackets.cfdp.pdu.finished import FinishedParams
from spacepackets.cfdp.pdu.prompt import ResponseRequired
from spacepackets.util import UnsignedByteField

from .core import CKS, MODE

PROPER_DIR = {"FD": "R", "MD": "R", "EOF": "R", "PROMPT": "R", "ACKF": "R", "FIN": "S", "NAK": "S", "KA": "S", "ACKE": "S"}
KINDS = ("FD", "MD", "EOF", "FIN", "ACKE", "ACKF", "NAK", "KA", "PROMPT")


def conf(src=(1, 2), dst=(2, 2), seq=(0, 2), mode="ack", crc=False, large=False) -> PduConfig:
    return PduConfig(
        source_entity_id=UnsignedByteField(src[0], src[1]),
        dest_entity_id=UnsignedByteField(dst[0], dst[1]),
        transaction_seq_num=UnsignedByteField(seq[0], seq[1]),
        trans_mode=MODE[mode],
        file_flag=LargeFileFlag.LARGE if large else LargeFileFlag.NORMAL,
        crc_flag=CrcFlag.WITH_CRC if crc else CrcFlag.NO_CRC,
    )


def build(kind: str, c: PduConfig, direction: str | None = None, **kw):
    """kind in KINDS; kw: type specific fields with defaults."""
    if kind == "FD":
        pdu = FileDataPdu(c, FileDataParams(file_data=kw.get("data", b"ab"), offset=kw.get("off", 0), segment_metadata=None))
    elif kind == "MD":
        pdu = MetadataPdu(c, MetadataParams(
            closure_requested=kw.get("closure", False), checksum_type=CKS[kw.get("cks", "crc32")],
            file_size=kw.get("size", 2), source_file_name=kw.get("sname", "in/src.bin"), dest_file_name=kw.get("dname", "out/dst.bin")),
            options=kw.get("options"))
    elif kind == "EOF":
        floc = kw.get("floc")
        pdu = EofPdu(c, file_checksum=kw.get("cksum", bytes(4)), file_size=kw.get("size", 2),
                     fault_location=None if floc is None else EntityIdTlv(bytes(floc)),
                     condition_code=ConditionCode[kw.get("cond", "NO_ERROR")])
    elif kind == "FIN":
        floc = kw.get("floc")
        pdu = FinishedPdu(c, FinishedParams(
            condition_code=ConditionCode[kw.get("cond", "NO_ERROR")], delivery_code=DeliveryCode[kw.get("deliv", "DATA_COMPLETE")],
            file_status=FileStatus[kw.get("fstat", "FILE_RETAINED")],
            fault_location=None if floc is None else EntityIdTlv(bytes(floc))))
    elif kind in ("ACKE", "ACKF"):
        pdu = AckPdu(c, DirectiveType.EOF_PDU if kind == "ACKE" else DirectiveType.FINISHED_PDU,
                     ConditionCode[kw.get("cond", "NO_ERROR")], TransactionStatus[kw.get("status", "ACTIVE")])
    elif kind == "NAK":
        pdu = NakPdu(c, kw.get("scope", (0, 2))[0], kw.get("scope", (0, 2))[1], [tuple(r) for r in kw.get("reqs", [(0, 2)])])
    elif kind == "KA":
        pdu = KeepAlivePdu(c, kw.get("progress", 0))
    elif kind == "PROMPT":
        pdu = PromptPdu(c, ResponseRequired[kw.get("rr", "NAK")])
    else:
        raise ValueError(kind)
    d = direction or PROPER_DIR[kind]
    pdu.pdu_header.direction = Direction.TOWARDS_RECEIVER if d == "R" else Direction.TOWARDS_SENDER
    return pdu
