"""Shared environment pieces: recording users / fault handlers, timer provider, configuration
vocabulary, PDU descriptions, entity shells (DESIGN.md 2.4, 3)."""
from __future__ import annotations

import os
import traceback
from pathlib import Path

from spacepackets.cfdp import (
    ChecksumType,
    ConditionCode,
    Direction,
    FaultHandlerCode,
    PduType,
    TransmissionMode,
)
from spacepackets.cfdp.pdu import (
    AckPdu,
    DirectiveType,
    EofPdu,
    FileDataPdu,
    FinishedPdu,
    KeepAlivePdu,
    MetadataPdu,
    NakPdu,
    PromptPdu,
    TransactionStatus,
)
from spacepackets.countdown import Countdown
from spacepackets.seqcount import SeqCountProvider
from spacepackets.util import UnsignedByteField

import cfdppy.exceptions as cexc
from cfdppy import (
    CfdpState,
    IndicationCfg,
    LocalEntityCfg,
    RemoteEntityCfg,
    RemoteEntityCfgTable,
)
from cfdppy.filestore import NativeFilestore
from cfdppy.handler import DestHandler, SourceHandler
from cfdppy.mib import CheckTimerProvider, DefaultFaultHandlerBase
from cfdppy.request import PutRequest
from cfdppy.user import CfdpUserBase
from xmc import SEED, canon, snapshot

def _ubf_atom(u):
    return f"U{u.byte_len}:{u.value}"


for _t in [UnsignedByteField] + list(UnsignedByteField.__subclasses__()):
    canon.ATOMIZERS[_t] = _ubf_atom


def entity_consts(ent) -> list:
    h = ent.h
    out = [h.cfg, h.cfg.indication_cfg, ent.faults, h.remote_cfg_table, h.check_timer_provider]
    out.extend(h.remote_cfg_table._remote_entity_dict.values())
    return out


PROTOCOL_EXC = tuple(
    v for v in vars(cexc).values() if isinstance(v, type) and issubclass(v, Exception) and v.__module__ == cexc.__name__
)

CKS = {
    "crc32": ChecksumType.CRC_32,
    "crc32c": ChecksumType.CRC_32C,
    "mod": ChecksumType.MODULAR,
    "null": ChecksumType.NULL_CHECKSUM,
}
MODE = {"ack": TransmissionMode.ACKNOWLEDGED, "unack": TransmissionMode.UNACKNOWLEDGED}
FH = {
    "ignore": FaultHandlerCode.IGNORE_ERROR,
    "cancel": FaultHandlerCode.NOTICE_OF_CANCELLATION,
    "abandon": FaultHandlerCode.ABANDON_TRANSACTION,
    "suspend": FaultHandlerCode.NOTICE_OF_SUSPENSION,
}


def content(n: int, seed: int | None = None, zero=False) -> bytes:
    """Seed dependent, non-zero, position-distinct (mod 251) byte values."""
    if zero == "ff":  # all-ones content: the modular checksum's word sum overflows 2^32 from the second word on
        return bytes([0xFF]) * n
    if zero:
        return bytes(n)
    s = SEED if seed is None else seed
    return bytes(((i * 37 + s * 11 + 5) % 251) + 1 for i in range(n))


def tid_key(tid) -> tuple | None:
    if tid is None:
        return None
    return (tid.source_id.value, tid.seq_num.value)


def pdu_tid(pdu) -> tuple:
    return (pdu.source_entity_id.value, pdu.transaction_seq_num.value)


def ubf(u):
    if u is None:
        return None
    return [u.value, u.byte_len]


def tlv_desc(t):
    if t is None:
        return None
    try:
        return t.pack().hex()
    except Exception as e:  # noqa: BLE001
        return f"<unpackable {type(e).__name__}>"


def _nm(x):
    return getattr(x, "name", repr(x))


def pdesc(pdu) -> dict:
    """JSON-able, value-complete description of a PDU (used for observations and oracles)."""
    d = {
        "dir": pdu.direction.name,
        "mode": pdu.transmission_mode.name,
        "crc": pdu.crc_flag.name,
        "large": pdu.file_flag.name,
        "src": ubf(pdu.source_entity_id),
        "dst": ubf(pdu.dest_entity_id),
        "seq": ubf(pdu.transaction_seq_num),
        "plen": pdu.packet_len,
    }
    try:
        d["packed"] = len(pdu.pack())
    except Exception as e:  # noqa: BLE001
        d["packed"] = f"<{type(e).__name__}>"
    if pdu.pdu_type == PduType.FILE_DATA:
        d.update(T="FD", off=pdu.offset, data=pdu.file_data.hex(), segmeta=pdu.has_segment_metadata)
        return d
    dt = pdu.directive_type
    if dt == DirectiveType.METADATA_PDU:
        opts = pdu.options_as_tlv()
        d.update(T="MD", size=pdu.file_size, sname=pdu.source_file_name, dname=pdu.dest_file_name,
                 cks=pdu.checksum_type.name, closure=bool(pdu.closure_requested),
                 opts=None if not opts else [tlv_desc(o) for o in opts])
    elif dt == DirectiveType.EOF_PDU:
        d.update(T="EOF", cond=_nm(pdu.condition_code), size=pdu.file_size, cks=pdu.file_checksum.hex(),
                 floc=tlv_desc(pdu.fault_location))
    elif dt == DirectiveType.FINISHED_PDU:
        d.update(T="FIN", cond=_nm(pdu.condition_code), deliv=_nm(pdu.delivery_code), fstat=_nm(pdu.file_status),
                 floc=tlv_desc(pdu.fault_location))
    elif dt == DirectiveType.ACK_PDU:
        d.update(T="ACK", of=_nm(pdu.directive_code_of_acked_pdu), cond=_nm(pdu.condition_code_of_acked_pdu),
                 status=_nm(pdu.transaction_status))
    elif dt == DirectiveType.NAK_PDU:
        d.update(T="NAK", scope=[pdu.start_of_scope, pdu.end_of_scope],
                 reqs=[list(r) for r in (pdu.segment_requests or [])])
    elif dt == DirectiveType.KEEP_ALIVE_PDU:
        d.update(T="KA", progress=pdu.progress)
    elif dt == DirectiveType.PROMPT_PDU:
        d.update(T="PROMPT", rr=pdu.response_required.name)
    else:  # pragma: no cover
        d.update(T=f"?{dt}")
    return d


def short(d: dict) -> str:
    t = d["T"]
    if t == "FD":
        return f"FD@{d['off']}+{len(d['data']) // 2}"
    if t == "MD":
        return "MD"
    if t == "EOF":
        return f"EOF({d['cond'][:6]},{d['size']})"
    if t == "FIN":
        return f"FIN({d['cond'][:6]},{d['deliv'][5:]},{d['fstat'][:8]})"
    if t == "ACK":
        return f"ACK({d['of'][:3]})"
    if t == "NAK":
        return f"NAK{d['reqs']}"
    return t


class Msg:
    """A PDU in flight: immutable deep snapshot taken at emission + its canonical value string."""

    _xmc_skip_ = ("blob", "d")
    __slots__ = ("ck", "blob", "d")

    def __init__(self, pdu):
        self.blob = snapshot.dumps(pdu)
        self.d = pdesc(pdu)
        self.ck = canon.canon_str(self.d)

    def fresh(self):
        return snapshot.loads(self.blob)

    def __getstate__(self):
        return (self.ck, self.blob, self.d)

    def __setstate__(self, s):
        self.ck, self.blob, self.d = s


class RecUser(CfdpUserBase):
    """Records every indication; ``take()`` empties the log (so snapshots never contain it)."""

    def __init__(self, vfs=None, name="U"):
        super().__init__(vfs if vfs is not None else NativeFilestore())
        self.name = name
        self.log: list = []
        self.probe = None  # optional callable(kind, rec) evaluated *inside* the indication

    def take(self) -> list:
        out, self.log = self.log, []
        return out

    def _rec(self, kind, **kw):
        rec = {"ind": kind, **kw}
        if self.probe is not None:
            extra = self.probe(kind, rec)
            if extra:
                rec.update(extra)
        self.log.append(rec)

    def transaction_indication(self, p):
        self._rec("transaction", tid=tid_key(p.transaction_id), orig=tid_key(p.originating_transaction_id))

    def eof_sent_indication(self, transaction_id):
        self._rec("eof_sent", tid=tid_key(transaction_id))

    def transaction_finished_indication(self, params):
        fp = params.finished_params
        self._rec("finished", tid=tid_key(params.transaction_id), cond=fp.condition_code.name,
                  deliv=fp.delivery_code.name, fstat=fp.file_status.name, floc=tlv_desc(fp.fault_location))

    def metadata_recv_indication(self, params):
        self._rec("metadata_recv", tid=tid_key(params.transaction_id), src=ubf(params.source_id),
                  size=params.file_size, sname=params.source_file_name, dname=params.dest_file_name,
                  msgs=None if params.msgs_to_user is None else [tlv_desc(m) for m in params.msgs_to_user])

    def file_segment_recv_indication(self, params):
        self._rec("file_segment_recv", tid=tid_key(params.transaction_id), off=params.offset, len=params.length,
                  segmeta=None if params.segment_metadata is None else repr(params.segment_metadata))

    def report_indication(self, transaction_id, status_report):
        self._rec("report", tid=tid_key(transaction_id))

    def suspended_indication(self, transaction_id, cond_code):
        self._rec("suspended", tid=tid_key(transaction_id), cond=cond_code.name)

    def resumed_indication(self, transaction_id, progress):
        self._rec("resumed", tid=tid_key(transaction_id), progress=progress)

    def fault_indication(self, transaction_id, cond_code, progress):
        self._rec("fault", tid=tid_key(transaction_id), cond=cond_code.name, progress=progress)

    def abandoned_indication(self, transaction_id, cond_code, progress):
        self._rec("abandoned", tid=tid_key(transaction_id), cond=cond_code.name, progress=progress)

    def eof_recv_indication(self, transaction_id):
        self._rec("eof_recv", tid=tid_key(transaction_id))


class RecFaults(DefaultFaultHandlerBase):
    def __init__(self, overrides: dict | None = None):
        super().__init__()
        self.log: list = []
        for cond, code in (overrides or {}).items():
            self.set_handler(ConditionCode[cond], FH[code])

    def take(self) -> list:
        out, self.log = self.log, []
        return out

    def _rec(self, kind, tid, cond, progress):
        self.log.append({"fault": kind, "tid": tid_key(tid), "cond": cond.name, "progress": progress})

    def notice_of_suspension_cb(self, transaction_id, cond, progress):
        self._rec("suspend", transaction_id, cond, progress)

    def notice_of_cancellation_cb(self, transaction_id, cond, progress):
        self._rec("cancel", transaction_id, cond, progress)

    def abandoned_cb(self, transaction_id, cond, progress):
        self._rec("abandon", transaction_id, cond, progress)

    def ignore_cb(self, transaction_id, cond, progress):
        self._rec("ignore", transaction_id, cond, progress)


class Timers(CheckTimerProvider):
    def __init__(self, seconds: float = 5.0):
        self.seconds = seconds

    def provide_check_timer(self, local_entity_id, remote_entity_id, entity_type) -> Countdown:
        return Countdown.from_seconds(self.seconds)


# ------------------------------------------------------------------------------------------------
# configuration vocabulary

DEFAULTS = dict(
    mode="ack", closure=False, cks="crc32", crc_flag=False, idw_s=2, idw_d=2, seqw=2, idv_s=1, idv_d=2, seq0=0,
    seg=4, mpl=512, size=8, nak="imm", shape="new", md_only=False,
    ack_limit=2, nak_limit=2, check_limit=2, disposition=False,
    ind=(True, True, True, True), msgs="none", fsreq=False, faults_s=None, faults_d=None, zero=False,
    req_mode="same", req_closure="same",
)

SRC_PATH = "in/src.bin"
DST_FILE = "out/dst.bin"
DST_DIR = "out"


def full_cfg(cfg: dict) -> dict:
    c = dict(DEFAULTS)
    c.update(cfg)
    return c


def src_id(c) -> UnsignedByteField:
    return UnsignedByteField(c["idv_s"], c["idw_s"])


def dst_id(c) -> UnsignedByteField:
    return UnsignedByteField(c["idv_d"], c["idw_d"])


def ind_cfg(c) -> IndicationCfg:
    es, er, fs, tf = c["ind"]
    return IndicationCfg(eof_sent_indication_required=es, eof_recv_indication_required=er,
                         file_segment_recvd_indication_required=fs, transaction_finished_indication_required=tf)


def remote_cfg(c, entity_id) -> RemoteEntityCfg:
    return RemoteEntityCfg(
        entity_id=entity_id,
        max_file_segment_len=c["seg"],
        max_packet_len=c["mpl"],
        closure_requested=c["closure"],
        crc_on_transmission=c["crc_flag"],
        default_transmission_mode=MODE[c["mode"]],
        crc_type=CKS[c["cks"]],
        positive_ack_timer_interval_seconds=7.0,
        positive_ack_timer_expiration_limit=c["ack_limit"],
        check_limit=c["check_limit"],
        disposition_on_cancellation=c["disposition"],
        immediate_nak_mode=(c["nak"] == "imm"),
        nak_timer_interval_seconds=11.0,
        nak_timer_expiration_limit=c["nak_limit"],
    )


NODIR_FILE = "nodir/dst.bin"  # shape 'nodir': the directory of the destination path does not exist


def dest_path_requested(c) -> str:
    if c["shape"] == "nodir":
        return NODIR_FILE
    return DST_DIR if c["shape"] in ("dir", "dir_existing", "dir_dir") else DST_FILE


def dest_path_resolved(c) -> str:
    if c["shape"] == "nodir":
        return NODIR_FILE
    return os.path.join(DST_DIR, os.path.basename(SRC_PATH)) if c["shape"] in ("dir", "dir_existing", "dir_dir") else DST_FILE


def prepare_files(c, vfs_s=None, vfs_d=None):
    """Creates the source file (and the destination shape) through plain OS calls (native) or through
    the given in-memory filestores."""
    data = content(c["size"], zero=c["zero"])
    if vfs_s is None:
        os.makedirs("in", exist_ok=True)
        with open(SRC_PATH, "wb") as f:
            f.write(data)
    else:
        vfs_s.mkdirs("in")
        vfs_s.put(SRC_PATH, data)
    if vfs_d is None:
        os.makedirs("out", exist_ok=True)
        if c["shape"] == "existing":
            with open(DST_FILE, "wb") as f:
                f.write(b"\xee" * (c["size"] + 3))
        elif c["shape"] == "dir_existing":  # directory destination that already holds a longer file of that name
            with open(dest_path_resolved(c), "wb") as f:
                f.write(b"\xdd" * (c["size"] + 3))
        elif c["shape"] == "dir_dir":  # directory destination that holds a *directory* with the source file's base name
            os.makedirs(os.path.join(DST_DIR, os.path.basename(SRC_PATH)), exist_ok=True)
    else:
        vfs_d.mkdirs("out")
        if c["shape"] == "existing":
            vfs_d.put(DST_FILE, b"\xee" * (c["size"] + 3))
        elif c["shape"] == "dir_existing":
            vfs_d.put(dest_path_resolved(c), b"\xdd" * (c["size"] + 3))
        elif c["shape"] == "dir_dir":
            vfs_d.mkdirs(os.path.join(DST_DIR, os.path.basename(SRC_PATH)))
    return data


def msgs_to_user(c):
    kind = c["msgs"]
    if kind == "none":
        return None
    from spacepackets.cfdp import MessageToUserTlv
    from spacepackets.cfdp.tlv import OriginatingTransactionId, ProxyPutResponse, ProxyPutResponseParams
    from spacepackets.cfdp import TransactionId
    from spacepackets.cfdp.pdu.finished import DeliveryCode, FileStatus
    from spacepackets.util import ByteFieldU8, ByteFieldU16

    out = []
    if kind in ("plain", "all"):
        out.append(MessageToUserTlv(b"hello"))
    if kind in ("orig", "both", "all"):
        out.append(OriginatingTransactionId(TransactionId(ByteFieldU16(9), ByteFieldU16(77))).to_generic_msg_to_user_tlv())
    if kind in ("proxy", "both", "all"):
        out.append(ProxyPutResponse(ProxyPutResponseParams(ConditionCode.NO_ERROR, DeliveryCode.DATA_COMPLETE,
                                                           FileStatus.FILE_RETAINED)).to_generic_msg_to_user_tlv())
    return out


def fs_requests(c):
    if not c.get("fsreq"):
        return None
    from spacepackets.cfdp import FileStoreRequestTlv, FilestoreActionCode

    return [FileStoreRequestTlv(action_code=FilestoreActionCode.CREATE_FILE_SNM, first_file_name="out/extra.bin")]


def eff_mode(c) -> str:
    """The transmission mode a put request built from ``c`` asks for: the request-level value if given, else the MIB default."""
    return c["req_mode"] if c["req_mode"] in ("ack", "unack") else c["mode"]


def eff_closure(c) -> bool:
    return c["req_closure"] if isinstance(c["req_closure"], bool) else c["closure"]


def put_request(c) -> PutRequest:
    rm = {"same": None, "none": None, "ack": TransmissionMode.ACKNOWLEDGED, "unack": TransmissionMode.UNACKNOWLEDGED}[c["req_mode"]]
    rc = {"same": None, "none": None, True: True, False: False}[c["req_closure"]]
    if c["md_only"]:
        return PutRequest(destination_id=dst_id(c), source_file=None, dest_file=None, trans_mode=rm,
                          closure_requested=rc, msgs_to_user=msgs_to_user(c), fs_requests=fs_requests(c))
    return PutRequest(destination_id=dst_id(c), source_file=Path(SRC_PATH), dest_file=Path(dest_path_requested(c)),
                      trans_mode=rm, closure_requested=rc, msgs_to_user=msgs_to_user(c), fs_requests=fs_requests(c))


def exc_site(ex: BaseException) -> str:
    """Innermost cfdppy frame that raised: 'module.function'."""
    site = "?"
    for fs in traceback.extract_tb(ex.__traceback__):
        if "/cfdppy/" in fs.filename:
            site = f"{os.path.basename(fs.filename)[:-3]}.{fs.name}"
    return site


def exc_desc(ex: BaseException) -> dict:
    return {"exc": type(ex).__name__, "site": exc_site(ex), "protocol": isinstance(ex, PROTOCOL_EXC), "msg": str(ex)[:120]}


class Entity:
    """The thin layer the library documents as the user's job: call the state machine, drain the
    outbound queue completely, catch exceptions, answer PDUs of closed transactions."""

    def __init__(self, name, handler, user: RecUser, faults: RecFaults, role: str):
        self.name = name
        self.h = handler
        self.user = user
        self.faults = faults
        self.role = role  # 'src' | 'dst'
        self.closed: list = []  # transaction ids this entity has finished (sorted)
        self.autodrain = True  # False: PDUs stay queued until get_one() (partial draining, C10)
        self.drain_anomaly = None

    # ---- bookkeeping ---------------------------------------------------------------------------
    def active_tid(self):
        if self.h.state == CfdpState.IDLE:
            return None
        return tid_key(self.h.transaction_id)

    def _note(self, before, ended=()):
        now = self.active_tid()
        if before is not None and now != before and before not in self.closed:
            self.closed = sorted(self.closed + [before])
        # a transaction may start and end within one call
        for rec_tid in ended:
            if rec_tid is not None and rec_tid != now and rec_tid not in self.closed:
                self.closed = sorted(self.closed + [rec_tid])

    def drain(self) -> list:
        """The retrieval loop of the library's own examples (``while num_packets_ready > 0: get_next_packet()``,
        asserting that a packet comes back).  ``self.drain_anomaly`` describes what that loop would have got wrong:
        a counter that announces more PDUs than are queued (the examples' assertion fails) or fewer (PDUs are left
        behind).  Left-behind PDUs are retrieved all the same so that the exploration goes on as before."""
        out = []
        self.drain_anomaly = None
        announced = self.h.states.num_packets_ready
        while self.h.states.num_packets_ready > 0:
            holder = self.h.get_next_packet()
            if holder is None:
                self.drain_anomaly = f"num_packets_ready announced {announced} PDUs but only {len(out)} were queued"
                break
            out.append(Msg(holder.pdu))
        n = len(out)
        while True:
            holder = self.h.get_next_packet()
            if holder is None:
                break
            out.append(Msg(holder.pdu))
        if len(out) > n and self.drain_anomaly is None:
            self.drain_anomaly = f"num_packets_ready announced {announced} PDUs but {len(out)} were queued"
        if self.drain_anomaly is None and self.h.states.num_packets_ready != 0:
            self.drain_anomaly = f"num_packets_ready is {self.h.states.num_packets_ready} with an empty queue"
        return out

    def get_one(self):
        holder = self.h.get_next_packet()
        return None if holder is None else Msg(holder.pdu)

    def call(self, fn, *a):
        """Run one API call; returns obs dict with emitted PDUs (as Msg), indications, faults, exception."""
        before = self.active_tid()
        obs = {}
        ret = None
        try:
            ret = fn(*a)
        except Exception as ex:  # noqa: BLE001
            obs["exc"] = exc_desc(ex)
        msgs = self.drain() if self.autodrain else []
        if self.autodrain and self.drain_anomaly and "exc" not in obs:
            # what a driver written like the library's examples experiences: its retrieval loop fails
            obs["exc"] = {"exc": "PacketCounterMismatch", "site": "states.num_packets_ready", "protocol": False, "msg": self.drain_anomaly}
        inds = self.user.take()
        flts = self.faults.take()
        ended = [r["tid"] for r in inds if r["ind"] == "finished"]
        if before is None and self.active_tid() is None and "exc" not in obs and a and a[0] is not None \
                and self.role == "dst" and hasattr(a[0], "pdu_header"):
            ended.append(pdu_tid(a[0]))
        self._note(before, ended)
        if inds:
            obs["ind"] = inds
        if flts:
            obs["faults"] = flts
        return obs, msgs, ret

    def step(self, pdu=None):
        obs, msgs, _ = self.call(self.h.state_machine, pdu)
        return obs, msgs

    # ---- closed-transaction duty -------------------------------------------------------------
    def shell_answer(self, msg: Msg):
        """If the PDU belongs to a transaction this entity already closed (and the handler is not
        busy with it), answer as documented and return (True, [reply Msgs]); else (False, [])."""
        d = msg.d
        t = (d["src"][0], d["seq"][0])
        if self.active_tid() == t or t not in self.closed:
            return False, []
        pdu = msg.fresh()
        if self.role == "dst" and d["T"] == "EOF":
            from cfdppy.handler.dest import acknowledge_inactive_eof_pdu

            return True, [Msg(acknowledge_inactive_eof_pdu(pdu, TransactionStatus.TERMINATED))]
        if self.role == "src" and d["T"] == "FIN":
            conf = pdu.pdu_header.pdu_conf
            conf.direction = Direction.TOWARDS_RECEIVER
            return True, [Msg(AckPdu(conf, DirectiveType.FINISHED_PDU, pdu.condition_code, TransactionStatus.TERMINATED))]
        return True, []


def make_source(c, vfs=None, seq_provider=None, faults=None) -> Entity:
    user = RecUser(vfs, "S")
    faults = faults or RecFaults(c.get("faults_s"))
    local = LocalEntityCfg(src_id(c), ind_cfg(c), faults)
    table = RemoteEntityCfgTable([remote_cfg(c, dst_id(c))])
    if seq_provider is None:
        seq_provider = SeqCountProvider(c["seqw"] * 8)
        seq_provider.count = c["seq0"]
    h = SourceHandler(cfg=local, user=user, remote_cfg_table=table, check_timer_provider=Timers(5.0),
                      seq_num_provider=seq_provider)
    return Entity("S", h, user, faults, "src")


def make_dest(c, vfs=None, faults=None) -> Entity:
    user = RecUser(vfs, "D")
    faults = faults or RecFaults(c.get("faults_d"))
    local = LocalEntityCfg(dst_id(c), ind_cfg(c), faults)
    table = RemoteEntityCfgTable([remote_cfg(c, src_id(c))])
    h = DestHandler(cfg=local, user=user, remote_cfg_table=table, check_timer_provider=Timers(5.0))
    return Entity("D", h, user, faults, "dst")


def read_file(path: str):
    try:
        with open(path, "rb") as f:
            return f.read()
    except (FileNotFoundError, IsADirectoryError, NotADirectoryError):
        return None


def sat(n: int, cap: int = 3) -> int:
    return n if n < cap else cap
