"""Independent reference checksums (bit-by-bit CRCs, CCSDS modular checksum). Not derived from
crcmod or from cfdppy; self-checked against the published check values on import."""
from __future__ import annotations


def _crc_reflected(data: bytes, poly_reflected: int) -> int:
    crc = 0xFFFFFFFF
    for b in data:
        crc ^= b
        for _ in range(8):
            crc = (crc >> 1) ^ poly_reflected if crc & 1 else crc >> 1
    return crc ^ 0xFFFFFFFF


def crc32(data: bytes) -> bytes:  # CRC-32/ISO-HDLC, poly 04C11DB7 reflected EDB88320
    return _crc_reflected(data, 0xEDB88320).to_bytes(4, "big")


def crc32c(data: bytes) -> bytes:  # CRC-32C/Castagnoli, poly 1EDC6F41 reflected 82F63B78
    return _crc_reflected(data, 0x82F63B78).to_bytes(4, "big")


def modular(data: bytes) -> bytes:
    total = 0
    for i in range(0, len(data), 4):
        w = data[i:i + 4]
        w = w + bytes(4 - len(w))
        total += (w[0] << 24) | (w[1] << 16) | (w[2] << 8) | w[3]
    return (total % (1 << 32)).to_bytes(4, "big")


def null(data: bytes) -> bytes:
    return bytes(4)


REF = {"crc32": crc32, "crc32c": crc32c, "mod": modular, "null": null}

assert crc32(b"123456789") == bytes.fromhex("CBF43926")
assert crc32c(b"123456789") == bytes.fromhex("E3069283")
assert crc32(b"") == bytes(4) and crc32c(b"") == bytes(4)
assert modular(bytes([1, 2, 3, 4, 5])) == ((0x01020304 + 0x05000000) % 2**32).to_bytes(4, "big")
